"""CLI:  python -m mc.run <ID> [--tier quick|thorough] [--replay FILE] [--serial]

exit 0  property held on everything explored (KNOWN-FINDING lines possible)
exit 1  at least one VIOLATION line printed
exit 2  harness error (HARNESS-ERROR line) - never reported as success or as a violation
"""
import argparse
import importlib
import json
import os
import sys
import time

from .engine import guard
guard.setup_env()

from .engine import evidence, explore  # noqa: E402


class Ctx:
    def __init__(self, tier, seed, serial=False):
        self.tier = tier
        self.seed = seed
        self.serial = serial
        self.coverage_extra = {}

    def explore(self, cases, check_case, timeout_s=10.0, init=None):
        if self.serial:
            if init is not None:
                init()
            return explore.run_serial(cases, check_case, timeout_s)
        return explore.run_sharded(cases, check_case, timeout_s, init=init)


def default_run(mod, ctx):
    return ctx.explore(lambda: mod.cases(ctx.tier, ctx.seed), mod.check_case,
                       timeout_s=getattr(mod, 'TIMEOUT', 10.0), init=getattr(mod, 'worker_init', None))


def main(argv=None):
    ap = argparse.ArgumentParser()
    ap.add_argument('pid')
    ap.add_argument('--tier', default=os.environ.get('VERIF_TIER', 'quick'), choices=['quick', 'thorough'])
    ap.add_argument('--replay')
    ap.add_argument('--serial', action='store_true')
    args = ap.parse_args(argv)
    pid = args.pid.upper()
    seed = int(os.environ.get('VERIF_SEED', '0') or 0)
    t0 = time.time()
    try:
        guard.import_emd()
        mod = importlib.import_module('mc.props.%s' % pid.lower())
    except Exception as e:  # noqa
        import traceback
        traceback.print_exc()
        print('HARNESS-ERROR property=%s cannot load: %r' % (pid, e))
        return 2

    if args.replay:
        with open(args.replay) as f:
            body = json.load(f)
        case = body['case']
        if hasattr(mod, 'decode_case'):
            case = mod.decode_case(case)
        if hasattr(mod, 'worker_init'):
            mod.worker_init()
        with guard.watchdog(getattr(mod, 'TIMEOUT', 10.0) * 3):
            try:
                out = mod.check_case(case)
            except guard.CaseTimeout:
                out = explore.Outcome(cls='timeout', viols=[('timeout', 'watchdog')])
        if out.viols:
            for kind, msg in out.viols:
                print('REPLAY property=%s kind=%s : %s' % (pid, kind, msg))
            print('VIOLATION property=%s replay=%s' % (pid, os.path.abspath(args.replay)))
            return 1
        print('REPLAY property=%s: case no longer violates' % pid)
        return 0

    ctx = Ctx(args.tier, seed, serial=args.serial)
    try:
        if hasattr(mod, 'run'):
            rep = mod.run(ctx)
        else:
            rep = default_run(mod, ctx)
    except guard.HarnessError as e:
        print('HARNESS-ERROR property=%s %s' % (pid, e))
        return 2

    errors = list(rep.errors)
    if hasattr(mod, 'nonvacuity'):
        errors.extend(mod.nonvacuity(rep, ctx))
    if rep.evaluations == 0:
        errors.append('no cases were executed')
    if rep.evaluations and rep.excluded > 0.2 * rep.evaluations:
        errors.append('more than 20%% of cases excluded by guard bands (%d of %d)' % (rep.excluded, rep.evaluations))

    new_viol = 0
    known_lines = []
    viol_lines = []
    for kind in sorted(rep.viols, key=lambda k: rep.viols[k][1]):
        count, index, case, msg = rep.viols[kind]
        sig = mod.signature(kind, case) if hasattr(mod, 'signature') else kind
        entry = evidence.known_status(pid, sig)
        if entry is not None:
            known_lines.append('KNOWN-FINDING: property=%s %s (%s; %d cases)' % (pid, entry.get('what', sig), sig, count))
            continue
        new_viol += 1
        snippet = mod.snippet(case, kind) if hasattr(mod, 'snippet') else None
        if hasattr(mod, 'replay_case'):
            case = mod.replay_case(case, kind, msg)
            msg = msg.split(' ##HIST')[0]
        path = evidence.write_replay(pid, kind, case, msg, snippet)
        viol_lines.append((kind, count, msg, path))

    wall = time.time() - t0
    coverage = {
        'states': rep.evaluations,
        'transitions': rep.transitions,
        'traces_validated_against_impl': rep.validated,
        'samples': rep.samples[:6] or [{'note': 'no sample recorded'}],
        'evaluations': rep.evaluations,
        'distinct_nontrivial': rep.nontrivial,
        'rule': getattr(mod, 'RULE', ''),
        'exhaustive': bool(getattr(mod, 'EXHAUSTIVE', True)) and not errors,
        'outcome_classes': dict(rep.classes),
        'guard_band_exclusions': rep.excluded,
        'timeouts': rep.timeouts,
        'violation_kinds': {k: v[0] for k, v in rep.viols.items()},
        'bounds': mod.bounds(ctx.tier) if hasattr(mod, 'bounds') else {},
        'harness_errors': errors[:5],
        'slowest_cases_s': [list(x) for x in getattr(rep, 'slowest', [])],
    }
    for k, v in rep.extra.items():
        coverage.setdefault(k, dict(v) if hasattr(v, 'items') else v)
    coverage.update(ctx.coverage_extra)
    evidence.write_evidence(pid, ctx.tier, seed, coverage, getattr(mod, 'ASSUMPTIONS', []), wall, new_viol)

    for line in known_lines:
        print(line)
    if errors:
        for n_, e in enumerate(errors[:5]):
            print('HARNESS-ERROR property=%s %s' % (pid, e.strip().splitlines()[-1] if e.strip() else e))
            if n_ == 0:
                sys.stderr.write(e + '\n')
        return 2
    for kind, count, msg, path in viol_lines[:12]:
        print('  %s: kind=%s cases=%d first: %s' % (pid, kind, count, msg))
        print('VIOLATION property=%s replay=%s' % (pid, path))
    if new_viol:
        return 1
    print('OK property=%s tier=%s states=%d transitions=%d classes=%s wall=%.1fs' % (
        pid, ctx.tier, rep.evaluations, rep.transitions, dict(rep.classes), wall))
    return 0


if __name__ == '__main__':
    sys.exit(main())
