"""C11 - holospectrum bins energy jointly by carrier and amplitude-modulation frequency.

Space (explorer I): carrier bin sets B1, AM bin sets B2, edge-hitting alphabets on both axes, EVERY pair of
first-level frequency matrix [T x M] and second-level frequency array [T x M x K] over those alphabets for a list of
small shapes; amplitudes distinct powers of two; modes x squash_time in {False, 'sum', 'mean'}.
Oracle: triple-loop brute force.
"""
import itertools
import numpy as np

from ..engine.explore import Outcome, Holder

_holder = Holder(depth=3)
from .c10 import freq_alphabet, STARTS

PID = 'C11'
TIMEOUT = 10.0
RULE = ('every (infr [TxM], infr2 [TxMxK]) pair over the edge-hitting alphabets of the two bin sets for the listed '
        'shapes; full alphabet (3B+5 values) for shapes with <= 2 second-level cells, 5-value reduced alphabet '
        '(below, first edge, mid, nextafter-below last edge, last edge) for 4-cell shapes; 2 modes x 3 squash settings '
        'per case; non-trivial = some sample in range on both axes and some sample out of range on one')
ASSUMPTIONS = ['amplitudes are distinct powers of two so per-cell sums are exact',
               'bin edges are those returned by emd.spectra.define_hist_bins']


def bounds(tier):
    if tier == 'quick':
        return {'full': [(1, 1, 1), (2, 1, 1), (1, 2, 1), (1, 1, 2)], 'B1': [1, 2, 3], 'B2': [1, 2],
                'reduced': [(2, 1, 2), (1, 2, 2)], 'full_big': []}
    return {'full': [(1, 1, 1), (2, 1, 1), (1, 2, 1), (1, 1, 2), (3, 1, 1), (1, 3, 1), (1, 1, 3)],
            'B1': [1, 2, 3], 'B2': [1, 2], 'reduced': [(2, 1, 2), (2, 2, 1), (1, 2, 2), (4, 1, 1), (1, 1, 4)],
            'full_big': [((2, 1, 2), 2, 1), ((1, 2, 2), 1, 1)]}


def edges(B, seed, which):
    from emd.spectra import define_hist_bins
    lo = STARTS[(seed + which) % len(STARTS)]
    if which == 0:
        return define_hist_bins(lo, lo + 2 * B, B)[0]
    return define_hist_bins(lo / 4, (lo / 4) * 2 ** B, B, scale='log')[0]


def reduced_alphabet(e):
    e = np.asarray(e, dtype=float)
    return [e[0] / 2, float(e[0]), float((e[0] + e[1]) / 2), float(np.nextafter(e[-1], -np.inf)), float(e[-1])]


def check_big(case):
    from emd.spectra import holospectrum, define_hist_bins
    _, B1, B2, T, M, K, seed = case
    e1 = define_hist_bins(2.0, 66.0, B1)[0]
    e2 = define_hist_bins(0.25, 16.0, B2, scale='log')[0]
    t = np.arange(T)[:, None, None]
    m = np.arange(M)[None, :, None]
    k = np.arange(K)[None, None, :]
    infr = 1.0 + ((t[:, :, 0] * (3 + m[:, :, 0]) + 5 * m[:, :, 0] + seed) % 700) / 10.0
    infr = np.where((t[:, :, 0] + m[:, :, 0]) % 9 == 0, e1[(t[:, :, 0] + m[:, :, 0]) % len(e1)], infr)
    infr2 = 0.1 + ((t * (2 + k) + 7 * m + 3 * k + seed) % 400) / 20.0
    infr2 = np.where((t + k) % 11 == 0, e2[(t + m + k) % len(e2)] + 0 * infr2, infr2)
    amp = 1.0 + ((t + 2 * m + 3 * k) % 8) + (t // 1000) + 0 * infr2
    viols = []
    b1 = np.digitize(infr, e1) - 1
    b2 = np.digitize(infr2, e2) - 1
    ok = ((infr >= e1[0]) & (infr < e1[-1]))[:, :, None] & (infr2 >= e2[0]) & (infr2 < e2[-1])
    for mode in ('energy', 'amplitude'):
        v = amp ** 2 if mode == 'energy' else amp
        exp = np.zeros((T, B2, B1))
        tt, mm, kk = np.where(ok)
        np.add.at(exp, (tt, b2[tt, mm, kk], b1[tt, mm]), v[tt, mm, kk])
        for sq, want in ((False, exp), ('sum', exp.sum(axis=0)), ('mean', exp.mean(axis=0))):
            try:
                got = np.asarray(holospectrum(infr.copy(), infr2.copy(), amp.copy(), e1.copy(), e2.copy(), mode=mode, squash_time=sq))
            except Exception as ex:
                viols.append(('big:raise:%s' % type(ex).__name__, 'large instance %r raised %r' % (case, ex)))
                continue
            if got.shape != want.shape or not np.allclose(got, want, rtol=1e-12, atol=0):
                viols.append(('big:value:%s' % sq, 'large instance %r mode=%s squash=%r differs from the per-sample histogram' % (case, mode, sq)))
    return Outcome(cls='mixed', transitions=6, viols=viols, nontrivial=True)


def cases(tier, seed):
    b = bounds(tier)
    for B1, B2 in ((5, 4), (40, 12), (130, 3)):
        yield ('big', B1, B2, 1200, 3, 4, seed)
    yield ('big', 6, 5, 5000, 2, 2, seed)            # beyond 4096 samples, not a multiple of it
    # bin grids whose folded (carrier, AM) index exceeds 2^16 (300 x 300, 120 x 600) and 2^8 (20 x 15)
    for B1, B2 in ((300, 300), (120, 600), (20, 15)):
        yield ('big', B1, B2, 40, 2, 3, seed)
    for B1 in b['B1']:
        for B2 in b['B2']:
            n1, n2 = 3 * B1 + 5, 3 * B2 + 5
            for shp in b['full']:
                T, M, K = shp
                if T * M * K == 3 and (B1 > 2 or B2 > 1):
                    continue
                for f1 in itertools.product(range(n1), repeat=T * M):
                    for f2 in itertools.product(range(n2), repeat=T * M * K):
                        yield ('full', B1, B2, shp, f1, f2, seed)
            for shp in b['reduced']:
                T, M, K = shp
                for f1 in itertools.product(range(5), repeat=T * M):
                    for f2 in itertools.product(range(5), repeat=T * M * K):
                        yield ('red', B1, B2, shp, f1, f2, seed)
    # non-finite frequencies (a NaN estimate lies in no bin, whatever the bins are - here they contain 0) and both
    # options passed by position
    NV1, NV2 = 6, 5
    for shp in ((1, 1, 1), (2, 1, 1), (1, 1, 2), (1, 2, 1)):
        T, M, K = shp
        for f1 in itertools.product(range(NV1), repeat=T * M):
            for f2 in itertools.product(range(NV2), repeat=T * M * K):
                yield ('nonfinite', 0, 0, shp, f1, f2, seed)
    for shp, B1, B2 in b['full_big']:
        T, M, K = shp
        n1, n2 = 3 * B1 + 5, 3 * B2 + 5
        for f1 in itertools.product(range(n1), repeat=T * M):
            for f2 in itertools.product(range(n2), repeat=T * M * K):
                yield ('full', B1, B2, shp, f1, f2, seed)


def decode_case(c):
    c = list(c)
    if c[0] == 'big':
        return tuple(c)
    c[3] = tuple(c[3])
    c[4] = tuple(c[4])
    c[5] = tuple(c[5])
    return tuple(c)


def build(case):
    kind, B1, B2, shp, f1, f2, seed = case
    T, M, K = shp
    e1 = edges(B1, seed, 0)
    e2 = edges(B2, seed, 1)
    a1 = freq_alphabet(e1) if kind == 'full' else reduced_alphabet(e1)
    a2 = freq_alphabet(e2) if kind == 'full' else reduced_alphabet(e2)
    infr = np.array([a1[i] for i in f1]).reshape(T, M)
    infr2 = np.array([a2[i] for i in f2]).reshape(T, M, K)
    amp = 2.0 ** (np.arange(T * M * K).reshape(T, M, K) + (seed % 3))
    if (sum(f1) + 3 * sum(f2)) % 5 == 0:
        amp = amp * 2.0 ** -40       # tiny but non-zero amplitudes (exact scaling): an in-range sample always counts
    return e1, e2, infr, infr2, amp


def brute(e1, e2, infr, infr2, amp, mode):
    T, M, K = infr2.shape
    B1, B2 = len(e1) - 1, len(e2) - 1
    out = np.zeros((T, B2, B1))
    for t in range(T):
        for m in range(M):
            for k in range(K):
                v = amp[t, m, k] ** 2 if mode == 'energy' else amp[t, m, k]
                for b1 in range(B1):
                    if e1[b1] <= infr[t, m] < e1[b1 + 1]:
                        for b2 in range(B2):
                            if e2[b2] <= infr2[t, m, k] < e2[b2 + 1]:
                                out[t, b2, b1] += v
    return out


NONFINITE1 = (np.nan, 2.0, 7.0, -1.0, 12.0, np.inf)
NONFINITE2 = (np.nan, 0.2, 0.7, 2.0, -np.inf)


def build_nonfinite(case):
    _, _, _, shp, f1, f2, seed = case
    T, M, K = shp
    infr = np.array([NONFINITE1[i] for i in f1]).reshape(T, M)
    infr2 = np.array([NONFINITE2[i] for i in f2]).reshape(T, M, K)
    amp = 2.0 ** (np.arange(T * M * K).reshape(T, M, K) + seed % 3)
    return np.array([0.0, 5.0, 10.0]), np.array([0.0, 0.5, 1.0]), infr, infr2, amp


def check_case(case):
    from emd.spectra import holospectrum
    if case[0] == 'big':
        return check_big(case)
    e1, e2, infr, infr2, amp = build(case) if case[0] != 'nonfinite' else build_nonfinite(case)
    T, M, K = infr2.shape
    B1, B2 = len(e1) - 1, len(e2) - 1
    viols = []
    trans = 0
    in1 = np.logical_and(infr >= e1[0], infr < e1[-1])
    in2 = np.logical_and(infr2 >= e2[0], infr2 < e2[-1])
    both = np.logical_and(in1[:, :, None], in2)
    for mode in ('energy', 'amplitude'):
        exp = brute(e1, e2, infr, infr2, amp, mode)
        for sq in (False, 'sum', 'mean'):
            try:
                a_, b_, c_ = infr.copy(), infr2.copy(), amp.copy()
                got = holospectrum(a_, b_, c_, e1.copy(), e2.copy(), mode=mode, squash_time=sq)
                if not (np.array_equal(a_, infr, equal_nan=True) and np.array_equal(b_, infr2, equal_nan=True) and np.array_equal(c_, amp)):
                    viols.append(('input-modified', '%s mode=%s: an input array was changed by the call' % (describe(case), mode)))
            except Exception as ex:
                viols.append(('raise:%s' % type(ex).__name__, '%s sq=%r raised %r' % (describe(case), sq, ex)))
                continue
            trans += 1
            for m_ in _holder.swap(got, 'holospectrum %s mode=%s squash_time=%r' % (describe(case), mode, sq)):
                viols.append(('earlier-result-changed', m_))
            got = np.asarray(got)
            if sq is False:
                want = exp
            elif sq == 'sum':
                want = exp.sum(axis=0)
            else:
                want = exp.mean(axis=0)
            if got.shape != want.shape:
                viols.append(('shape:%s' % sq, '%s mode=%s: shape %r expected %r' % (describe(case), mode, got.shape, want.shape)))
                continue
            if sq == 'mean':
                ok = np.allclose(got, want, rtol=1e-14, atol=0)
            else:
                ok = np.array_equal(got, want)
            if not ok:
                viols.append(('value:%s' % sq, '%s mode=%s squash=%r: got %s expected %s' % (describe(case), mode, sq, got.tolist(), want.tolist())))
    # `mode` and `squash_time` omitted: the documented defaults are 'energy' and time-summed ('sum')
    if not viols and ((sum(case[4]) + sum(case[5])) % 4 == 0 or case[0] == 'nonfinite'):
        try:
            d0 = np.asarray(holospectrum(infr.copy(), infr2.copy(), amp.copy(), e1.copy(), e2.copy()))
            want0 = brute(e1, e2, infr, infr2, amp, 'energy').sum(axis=0)
            trans += 1
            p0 = np.asarray(holospectrum(infr.copy(), infr2.copy(), amp.copy(), e1.copy(), e2.copy(), 'amplitude', False))
            wantp = brute(e1, e2, infr, infr2, amp, 'amplitude')
            trans += 1
            if p0.shape != wantp.shape or not np.array_equal(p0, wantp):
                viols.append(('positional-options', '%s: holospectrum(..., \'amplitude\', False) by position: shape %r, expected the full amplitude holospectrum %r' % (describe(case), p0.shape, wantp.shape)))
            if d0.shape != want0.shape or not np.array_equal(d0, want0):
                viols.append(('defaults', '%s: with mode / squash_time omitted the result is not the time-summed energy holospectrum' % describe(case)))
        except Exception as ex:
            viols.append(('raise:defaults:%s' % type(ex).__name__, '%s with defaults raised %r' % (describe(case), ex)))
    # the same values in another memory layout (Fortran order / a moved-axis view) must give the same spectrum
    if T * M * K >= 2 and not viols:
        views = [('fortran', np.asfortranarray(infr), np.asfortranarray(infr2), np.asfortranarray(amp)),
                 ('moveaxis', infr, np.moveaxis(np.ascontiguousarray(np.moveaxis(infr2, 0, -1)), -1, 0),
                  np.moveaxis(np.ascontiguousarray(np.moveaxis(amp, 0, -1)), -1, 0))]
        ref = brute(e1, e2, infr, infr2, amp, 'amplitude')
        for name, a_, b_, c_ in views:
            try:
                got = np.asarray(holospectrum(a_, b_, c_, e1.copy(), e2.copy(), mode='amplitude', squash_time=False))
            except Exception as ex:
                viols.append(('layout:raise:%s' % type(ex).__name__, '%s %s layout raised %r' % (describe(case), name, ex)))
                continue
            trans += 1
            if got.shape != ref.shape or not np.array_equal(got, ref):
                viols.append(('layout:%s' % name, '%s: result depends on the memory layout of the inputs (%s)' % (describe(case), name)))
    cls = 'all-in' if both.all() else ('all-out' if not both.any() else 'mixed')
    return Outcome(cls=cls, transitions=trans, viols=viols, nontrivial=bool(both.any() and not both.all()))


def describe(case):
    e1, e2, infr, infr2, amp = build(case) if case[0] != 'nonfinite' else build_nonfinite(case)
    return 'edges1=%s edges2=%s infr=%s infr2=%s amp=%s' % (e1.tolist(), e2.tolist(), infr.tolist(), infr2.tolist(), amp.tolist())


def snippet(case, kind):
    if case[0] in ('big', 'nonfinite'):
        return None
    e1, e2, infr, infr2, amp = build(case)
    return ('import numpy as np, emd\n'
            'e1 = np.array(%r); e2 = np.array(%r)\n'
            'infr = np.array(%r); infr2 = np.array(%r); amp = np.array(%r)\n'
            'print(emd.spectra.holospectrum(infr, infr2, amp, e1, e2, mode="amplitude", squash_time=False))\n'
            '# cell [t, b2, b1] must hold exactly the samples with e1[b1]<=infr<e1[b1+1] and e2[b2]<=infr2<e2[b2+1]\n'
            % (e1.tolist(), e2.tolist(), infr.tolist(), infr2.tolist(), amp.tolist()))


def nonvacuity(rep, ctx):
    if not {'all-in', 'all-out', 'mixed'} <= set(rep.classes):
        return ['vacuous: outcome classes %r' % dict(rep.classes)]
    return []
