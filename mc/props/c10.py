"""C10 - Hilbert-Huang spectrum bins every sample's energy exactly once.

Space (explorer I): bin sets {linear, log} x B bins; frequency alphabet = {negative, below first edge, every edge,
every bin midpoint, nextafter-below every edge, above last edge}; EVERY frequency matrix [T x M] over that alphabet
with T*M <= bound; amplitudes = distinct powers of two (sums identify exactly which samples landed where) or a
signed/zero preset; modes {energy, amplitude}; outputs {dense, sparse, 1-D marginal}.  Oracle: per-sample brute force.
"""
import itertools
import numpy as np

from ..engine.explore import Outcome, Holder

_holder = Holder(depth=8)

PID = 'C10'
TIMEOUT = 10.0
RULE = ('every frequency matrix [T x M] (T*M <= bound) over the edge-hitting alphabet of each bin set x amplitude '
        'preset; each case runs 2 modes x {dense, sparse, 1-D}; non-trivial = at least one sample in range and one '
        'out of range or on an edge')
ASSUMPTIONS = ['amplitudes are (signed) powers of two so that per-bin sums are exact and identify the contributing samples',
               'bin edges are those returned by emd.spectra.define_hist_bins; the alphabet is derived from the returned edges']

STARTS = (1.0, 0.5, 3.0, 10.0)


def bounds(tier):
    if tier == 'quick':
        return {'max_bins': 3, 'max_cells': {1: 4, 2: 4, 3: 3}}
    return {'max_bins': 4, 'max_cells': {1: 4, 2: 4, 3: 4, 4: 4}}


def edges_for(scale, B, seed):
    from emd.spectra import define_hist_bins
    lo = STARTS[seed % len(STARTS)]
    if scale == 'linear':
        return define_hist_bins(lo, lo + B, B)
    if scale == 'linear-neg':
        return define_hist_bins(-1.5, -1.5 + B, B)         # a bin set that starts below zero (signed frequencies are legal)
    return define_hist_bins(lo, lo * 2 ** B, B, scale='log')


def freq_alphabet(edges):
    e = np.asarray(edges, dtype=float)
    vals = [-1.0, e[0] / 2]
    for i, x in enumerate(e):
        vals.append(float(np.nextafter(x, -np.inf)))
        vals.append(float(x))
        if i + 1 < len(e):
            vals.append(float((x + e[i + 1]) / 2))
    vals.append(float(e[-1] * 1.5))
    return vals


def shapes(maxcells):
    out = []
    for n in range(1, maxcells + 1):
        for T in range(1, n + 1):
            if n % T == 0:
                out.append((T, n // T))
    return out


def cases(tier, seed):
    b = bounds(tier)
    # histogram bin construction
    for scale in ('linear', 'log'):
        for B in range(1, 9):
            for lo, hi in ((1.0, 5.0), (0.5, 64.0), (3.0, 3.5), (1e-3, 1e3)):
                yield ('bins', scale, B, lo, hi)
    # larger scope: thousands of samples x several IMFs, many bins (vectorised reference)
    for scale in ('linear', 'log'):
        for B in (7, 64, 300):
            yield ('big', scale, B, 3000, 5, seed)
        yield ('big', scale, 9, 70000, 2, seed)          # beyond 2^16 samples
        yield ('range', scale, 6, 600, 2, seed)          # amplitudes spanning 8 orders of magnitude inside one IMF
    # hand-made bin edges: EVERY strictly increasing edge set of 3..7 (thorough: 3..9) edges drawn from the grid 0..10
    # (irregular widths; bins of any width next to each other; the first width telling nothing about the others)
    for k in range(3, 8 if tier == 'quick' else 10):
        for sub in itertools.combinations(range(11), k):
            yield ('irr', sub, seed)
    for B in range(1, b['max_bins'] + 1):
        for scale in ('linear', 'log') + (('linear-neg',) if B <= 2 else ()):
            nal = 3 * B + 5
            for (T, M) in shapes(b['max_cells'][B]):
                for amp in (0, 1):
                    for fi in itertools.product(range(nal), repeat=T * M):
                        yield ('hht', scale, B, T, M, amp, fi, seed)


def decode_case(c):
    c = list(c)
    if c[0] == 'hht':
        c[6] = tuple(c[6])
    if c[0] == 'irr':
        c[1] = tuple(c[1])
    return tuple(c)


def amplitudes(T, M, amp, seed):
    k = np.arange(T * M).reshape(T, M).astype(float)
    if amp == 0:
        return 2.0 ** (k + (seed % 3))
    a = 2.0 ** k
    a.flat[0::3] *= -1
    if T * M > 1:
        a.flat[1] = 0.0
    return a


def brute(f, a, edges, mode):
    B = len(edges) - 1
    T, M = f.shape
    out = np.zeros((B, T))
    out1 = np.zeros((B, M))
    for t in range(T):
        for m in range(M):
            v = a[t, m] ** 2 if mode == 'energy' else a[t, m]
            for b in range(B):
                if edges[b] <= f[t, m] < edges[b + 1]:
                    out[b, t] += v
                    out1[b, m] += v
    return out, out1


def check_irregular(case):
    """User-supplied irregular edges: one sample at every grid value, just below it, half-way to the next, and outside."""
    from emd.spectra import hilberthuang, hilberthuang_1d
    _, sub, seed = case
    edges = np.array(sub, dtype=float)
    B = len(edges) - 1
    vals = [-1.0, 10.5, 11.0]
    for g in range(11):
        vals += [float(g), float(np.nextafter(g, -np.inf)), g + 0.5]
    vals = np.array(vals)
    amp = 2.0 ** ((np.arange(len(vals)) + seed) % 11)
    d = 'user-supplied edges %s' % (list(sub),)
    viols = []
    trans = 0
    for lay, f, a in (('one IMF', vals[:, None], amp[:, None]), ('one time point', vals[None, :], amp[None, :]),
                      ('3 IMFs', vals.reshape(-1, 3), amp.reshape(-1, 3))):
        T, M = f.shape
        for mode in ('energy', 'amplitude'):
            exp2, exp1 = brute(f, a, edges, mode)
            try:
                dense = np.asarray(hilberthuang(f.copy(), a.copy(), edges.copy(), mode=mode))
                sp = hilberthuang(f.copy(), a.copy(), edges.copy(), mode=mode, return_sparse=True)
                one = np.asarray(hilberthuang_1d(f.copy(), a.copy(), edges.copy(), mode=mode))
            except Exception as e:
                viols.append(('irr:raise:%s' % type(e).__name__, '%s (%s, mode=%s) raised %r' % (d, lay, mode, e)))
                continue
            trans += 3
            if dense.shape != (B, T) or one.shape != (B, M) or sp.shape != (B, T):
                viols.append(('irr:shape', '%s (%s): shapes dense %r sparse %r 1d %r' % (d, lay, dense.shape, sp.shape, one.shape)))
                continue
            if not np.array_equal(dense, exp2):
                bt = np.argwhere(dense != exp2)[0]
                viols.append(('irr:dense-vs-brute', '%s (%s, mode=%s): dense spectrum wrong, e.g. bin %d time %d holds %r expected %r (frequencies %s)'
                              % (d, lay, mode, bt[0], bt[1], dense[bt[0], bt[1]], exp2[bt[0], bt[1]], f[bt[1]].tolist())))
            if not np.array_equal(np.asarray(sp.toarray()), dense):
                viols.append(('irr:sparse-vs-dense', '%s (%s, mode=%s): sparse and dense spectra differ' % (d, lay, mode)))
            if not np.array_equal(one, exp1):
                viols.append(('irr:1d-vs-brute', '%s (%s, mode=%s): 1d spectrum %s expected %s' % (d, lay, mode, one.tolist(), exp1.tolist())))
    return Outcome(cls='irregular', transitions=trans, viols=viols, nontrivial=True)


def check_big(case):
    from emd.spectra import hilberthuang, hilberthuang_1d, define_hist_bins
    _, scale, B, T, M, seed = case
    edges = define_hist_bins(1.0, 65.0, B, scale=scale)[0]
    t = np.arange(T)[:, None]
    m = np.arange(M)[None, :]
    # deterministic frequencies sweeping through and beyond the range, hitting many edges exactly
    f = 0.5 + ((t * (7 + 3 * m) + 11 * m + seed) % 1400) / 20.0
    idx = (t * 5 + m) % (len(edges) * 3)
    f = np.where(idx < len(edges), edges[np.minimum(idx, len(edges) - 1)], f)
    a = 1.0 + ((t + 2 * m) % 8)
    rtol = 0.0
    if case[0] == 'range':
        # a strong low-frequency transient followed by a weak oscillation in a higher bin: every bin holds only samples
        # of one size, so each per-bin sum is still accurate to rounding - whatever the other bins hold
        f = np.where(t < 100, 1.5 + 0 * m, 40.0 + 0.01 * (t % 7) + 0 * m)
        a = np.where(t < 100, 1e8, 1.0) + 0.0 * m
        rtol = 1e-12
    viols = []
    bins = np.digitize(f, edges) - 1                    # reference: half-open bins via searchsorted semantics
    ok = (f >= edges[0]) & (f < edges[-1])
    for mode in ('energy', 'amplitude'):
        v = a ** 2 if mode == 'energy' else a
        exp2 = np.zeros((B, T))
        exp1 = np.zeros((B, M))
        tt, mm = np.where(ok)
        np.add.at(exp2, (bins[tt, mm], tt), v[tt, mm])
        np.add.at(exp1, (bins[tt, mm], mm), v[tt, mm])
        try:
            f_, a_ = f.copy(), a.copy()
            dense = np.asarray(hilberthuang(f_, a_, edges.copy(), mode=mode))
            sp = hilberthuang(f_, a_, edges.copy(), mode=mode, return_sparse=True)
            one = np.asarray(hilberthuang_1d(f_, a_, edges.copy(), mode=mode))
        except Exception as e:
            viols.append(('big:raise:%s' % type(e).__name__, 'large instance %r raised %r' % (case, e)))
            continue
        if dense.shape != exp2.shape or not np.allclose(dense, exp2, rtol=rtol, atol=0):
            viols.append(('big:dense', 'large instance %r mode=%s: dense spectrum differs from the per-sample histogram' % (case, mode)))
        if not np.array_equal(np.asarray(sp.toarray()), dense):
            viols.append(('big:sparse', 'large instance %r mode=%s: sparse and dense differ' % (case, mode)))
        if one.shape != exp1.shape or not np.allclose(one, exp1, rtol=rtol, atol=0):
            viols.append(('big:1d', 'large instance %r mode=%s: marginal spectrum differs from the per-sample histogram' % (case, mode)))
        if not (np.array_equal(f_, f) and np.array_equal(a_, a)):
            viols.append(('big:input-modified', 'large instance %r: inputs changed' % (case,)))
    return Outcome(cls='mixed', transitions=6, viols=viols, nontrivial=True)


def check_case(case):
    if case[0] == 'bins':
        return check_bins(case)
    if case[0] in ('big', 'range'):
        return check_big(case)
    if case[0] == 'irr':
        return check_irregular(case)
    from emd.spectra import hilberthuang, hilberthuang_1d
    _, scale, B, T, M, amp, fi, seed = case
    edges, centres = edges_for(scale, B, seed)
    al = freq_alphabet(edges)
    f = np.array([al[i] for i in fi]).reshape(T, M)
    # amplitudes differ from one case to the next (an exact power-of-two factor that follows the frequency pattern)
    a = amplitudes(T, M, amp, seed) * 2.0 ** (sum(fi) % 3)
    viols = []
    trans = 0
    inrange = np.logical_and(f >= edges[0], f < edges[-1])
    for mode in ('energy', 'amplitude'):
        exp2, exp1 = brute(f, a, edges, mode)
        try:
            # the same array objects for all three calls, as a user would do: none of them may be altered
            f_, a_, e_ = f.copy(), a.copy(), edges.copy()
            one = hilberthuang_1d(f_, a_, e_, mode=mode)
            dense = hilberthuang(f_, a_, e_, mode=mode)
            sp = hilberthuang(f_, a_, e_, mode=mode, return_sparse=True)
            if not (np.array_equal(f_, f) and np.array_equal(a_, a) and np.array_equal(e_, edges)):
                viols.append(('input-modified', '%s mode=%s: an input array was changed by a call' % (describe(case), mode)))
        except Exception as e:
            viols.append(('raise:%s' % type(e).__name__, '%s raised %r' % (describe(case), e)))
            continue
        trans += 3
        for res_, nm_ in ((one, '1d'), (dense, 'dense'), (sp, 'sparse')):
            for m_ in _holder.swap(res_, 'hilberthuang %s %s mode=%s' % (nm_, describe(case), mode)):
                viols.append(('earlier-result-changed', m_))
        dense = np.asarray(dense)
        if dense.shape != (B, T) or np.asarray(one).shape != (B, M) or sp.shape != (B, T):
            viols.append(('shape', '%s: shapes dense %r sparse %r 1d %r' % (describe(case), dense.shape, sp.shape, np.asarray(one).shape)))
            continue
        if not np.array_equal(dense, exp2):
            viols.append(('dense-vs-brute:%s' % why(f, edges, dense, exp2), '%s mode=%s: dense %s expected %s' % (describe(case), mode, dense.tolist(), exp2.tolist())))
        if not np.array_equal(np.asarray(sp.toarray()), dense):
            viols.append(('sparse-vs-dense', '%s mode=%s: sparse %s dense %s' % (describe(case), mode, sp.toarray().tolist(), dense.tolist())))
        if not np.array_equal(one, exp1):
            viols.append(('1d-vs-brute', '%s mode=%s: 1d %s expected %s' % (describe(case), mode, np.asarray(one).tolist(), exp1.tolist())))
        tot = (a[inrange] ** 2).sum() if mode == 'energy' else a[inrange].sum()
        if dense.sum() != tot and np.array_equal(dense, exp2):
            viols.append(('total', '%s mode=%s: total %r expected %r' % (describe(case), mode, dense.sum(), tot)))
        # the same values in Fortran memory order (the transpose of an [IMFs x time] array, a MATLAB file): same spectrum
        if T >= 2 and M >= 2 and mode == 'amplitude':
            for lname, f2, a2 in (('both-fortran', np.asfortranarray(f), np.asfortranarray(a)), ('freq-fortran', np.asfortranarray(f), a.copy()),
                                  ('amp-fortran', f.copy(), np.asfortranarray(a))):
                try:
                    d2 = np.asarray(hilberthuang(f2, a2, edges.copy(), mode=mode))
                    o2 = np.asarray(hilberthuang_1d(f2, a2, edges.copy(), mode=mode))
                except Exception as e:
                    viols.append(('layout:raise:%s' % type(e).__name__, '%s %s raised %r' % (describe(case), lname, e)))
                    continue
                trans += 2
                if d2.shape != exp2.shape or not np.array_equal(d2, exp2) or not np.array_equal(o2, exp1):
                    viols.append(('layout:%s' % lname, '%s: result depends on the memory layout of the inputs (%s)' % (describe(case), lname)))
    # the documented default of `mode` is 'energy': omitting it is the same call
    if not viols and sum(fi) % 4 == 0:
        exp2, exp1 = brute(f, a, edges, 'energy')
        try:
            d0 = np.asarray(hilberthuang(f.copy(), a.copy(), edges.copy()))
            o0 = np.asarray(hilberthuang_1d(f.copy(), a.copy(), edges.copy()))
            s0 = hilberthuang(f.copy(), a.copy(), edges.copy(), return_sparse=True)
            trans += 3
            if not (np.array_equal(d0, exp2) and np.array_equal(o0, exp1) and np.array_equal(np.asarray(s0.toarray()), exp2)):
                viols.append(('default-mode', '%s: with `mode` omitted the spectra are not the energy spectra (dense %s, 1d %s)' % (describe(case), d0.tolist(), o0.tolist())))
        except Exception as e:
            viols.append(('raise:default-mode:%s' % type(e).__name__, '%s with mode omitted raised %r' % (describe(case), e)))
    nontriv = bool(inrange.any() and (~inrange).any())
    cls = 'all-in' if inrange.all() else ('all-out' if not inrange.any() else 'mixed')
    return Outcome(cls=cls, transitions=trans, viols=viols, nontrivial=nontriv)


def why(f, edges, got, exp):
    """Name the frequency class of the first sample whose time column differs."""
    t = int(np.where((got != exp).any(axis=0))[0][0])
    row = f[t]
    if (row < 0).any():
        return 'negative-freq'
    if (row < edges[0]).any():
        return 'below-first-edge'
    if (row >= edges[-1]).any():
        return 'at-or-above-last-edge'
    if np.isin(row, edges).any():
        return 'on-edge'
    return 'in-range'


def check_bins(case):
    from emd.spectra import define_hist_bins, define_hist_bins_from_data
    _, scale, B, lo, hi = case
    viols = []
    for src in ('direct', 'data'):
        try:
            if src == 'direct':
                e, c = define_hist_bins(lo, hi, B, scale=scale)
            else:
                data = np.array([hi, (lo + hi) / 2, lo, lo + 0.3 * (hi - lo)])
                e, c = define_hist_bins_from_data(data, nbins=B, scale=scale)
        except Exception as ex:
            viols.append(('bins:raise', '%r raised %r' % (case, ex)))
            continue
        e = np.asarray(e)
        c = np.asarray(c)
        ok = (e.shape == (B + 1,) and c.shape == (B,) and np.all(np.diff(e) > 0)
              and abs(e[0] - lo) <= 1e-12 * abs(lo) and abs(e[-1] - hi) <= 1e-12 * abs(hi)
              and np.allclose(c, (e[:-1] + e[1:]) / 2, rtol=1e-14, atol=0))
        if ok and scale == 'linear':
            ok = np.allclose(np.diff(e), (hi - lo) / B, rtol=1e-9)
        if ok and scale == 'log':
            ok = np.allclose(e[1:] / e[:-1], (hi / lo) ** (1.0 / B), rtol=1e-9)
        if not ok:
            viols.append(('bins:%s' % src, '%r: edges %s centres %s' % (case, e.tolist(), c.tolist())))
    return Outcome(cls='bins', transitions=2, viols=viols, nontrivial=True)


def describe(case):
    _, scale, B, T, M, amp, fi, seed = case
    edges, _ = edges_for(scale, B, seed)
    al = freq_alphabet(edges)
    return 'edges=%s f=%s a=%s' % (np.asarray(edges).tolist(), np.array([al[i] for i in fi]).reshape(T, M).tolist(),
                                   (amplitudes(T, M, amp, seed) * 2.0 ** (sum(fi) % 3)).tolist())


def snippet(case, kind):
    if case[0] != 'hht':
        return None
    _, scale, B, T, M, amp, fi, seed = case
    edges, _ = edges_for(scale, B, seed)
    al = freq_alphabet(edges)
    f = np.array([al[i] for i in fi]).reshape(T, M)
    return ('import numpy as np, emd\n'
            'edges = np.array(%r)\nf = np.array(%r)\na = np.array(%r)\n'
            'print(emd.spectra.hilberthuang(f, a, edges, mode="amplitude"))\n'
            'print(emd.spectra.hilberthuang_1d(f, a, edges, mode="amplitude"))\n'
            '# each sample must land only in the bin with edges[b] <= f < edges[b+1]\n'
            % (np.asarray(edges).tolist(), f.tolist(), (amplitudes(T, M, amp, seed) * 2.0 ** (sum(fi) % 3)).tolist()))


def nonvacuity(rep, ctx):
    need = {'all-in', 'all-out', 'mixed', 'bins', 'irregular'}
    if not need <= set(rep.classes):
        return ['vacuous: outcome classes %r' % dict(rep.classes)]
    return []
