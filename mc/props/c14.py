"""C14 - per-cycle statistics and phase alignment use exactly each cycle's samples.

Three exhaustive families (explorer I):
 stat  : every label vector of length <= L (contiguous runs 0..K-1 in order, optional -1 gaps anywhere) x 7 reducing
         functions (one of them records exactly which samples it was handed) x output modes
 align : every ordered triple of cycle lengths from a menu x quantity x npoints x interpolation kind
 bins  : every phase sequence of length <= Lb over {left bin edges, bin midpoints} for nbins in {2,3,4,6}
"""
import itertools
import numpy as np

from ..engine.explore import Outcome, Refill, Holder

_refill = Refill()
_holder = Holder()
from ..engine import enum

PID = 'C14'
TIMEOUT = 20.0
RULE = ('stat: all contiguous-run label vectors up to length L and ALL label vectors over {-1,0,1,2} up to length La (interrupted / out-of-order labels) x 7 functions x 2 output modes; align: all ordered triples of cycle '
        'lengths x 4 quantities x 5 npoints x 4 kinds; bins: all phase sequences over edge/midpoint alphabets; '
        'non-trivial = at least two cycles (stat), cycles of different length (align), an empty and a filled bin (bins)')
ASSUMPTIONS = ['values are distinct powers of two so sums identify the contributing samples exactly',
               'interpolation-error bound for linear interpolation: M*h^2/2 with M=max|f\'\'|, h = phase step of the cycle']

LENGTHS = (8, 13, 50, 400)
NPOINTS = (2, 3, 8, 48, 64)
KINDS = ('linear', 'nearest', 'quadratic', 'cubic')
QUANT = ('affine', 'sin', 'cos2', 'sq')


def bounds(tier):
    if tier == 'quick':
        return {'stat_len': 9, 'any_len': 6, 'bins_len': {2: 6, 3: 5, 4: 4, 6: 3}, 'lengths': LENGTHS[:3]}
    return {'stat_len': 12, 'any_len': 8, 'bins_len': {2: 8, 3: 6, 4: 5, 6: 4}, 'lengths': LENGTHS}


def label_vectors(lmax):
    """Contiguous runs labelled 0..K-1 in order, with optional -1 gaps before, between and after."""
    for n in range(1, lmax + 1):
        for comp in enum.compositions(n, tuple(range(1, n + 1))):
            for gaps in itertools.product((0, 1), repeat=len(comp)):
                if any(gaps[i] and gaps[i + 1] for i in range(len(gaps) - 1)):
                    continue
                v = []
                k = 0
                for ln, g in zip(comp, gaps):
                    if g:
                        v += [-1] * ln
                    else:
                        v += [k] * ln
                        k += 1
                yield tuple(v)


def any_label_vectors(lmax):
    """Every vector over {-1, 0, 1, 2} whose non-negative labels are exactly 0..K-1 - labels may be interrupted by
    gaps or by other labels and need not appear in order ("any labelling")."""
    for n in range(1, lmax + 1):
        for v in itertools.product((-1, 0, 1, 2), repeat=n):
            labs = set(x for x in v if x >= 0)
            if labs == set(range(len(labs))):
                yield v


def cases(tier, seed):
    b = bounds(tier)
    for v in label_vectors(b['stat_len']):
        yield ('stat', v, seed)
    for v in any_label_vectors(b['any_len']):
        yield ('stat', v, seed)
    # larger scope: hundreds / thousands of cycles of mixed length, with gaps
    for K in (300, 2500):
        yield ('stat-big', K, seed)
    # the container route: Cycles object, both modes, both outputs
    for lens in ((20, 28, 18, 32, 22), (24, 24, 24), (17, 40, 9, 33, 16, 21, 60)):
        yield ('stat-cycles', lens, seed)
    for nb, lm in b['bins_len'].items():
        for s in enum.sequences(range(2 * nb), 1, lm):
            yield ('bins', nb, s, seed)
    for trip in itertools.product(b['lengths'], repeat=3):
        for q in QUANT:
            for npnt in NPOINTS:
                for kind in KINDS:
                    yield ('align', trip, q, npnt, kind, seed)
        for npnt in NPOINTS:
            yield ('align', trip, 'affine-partial', npnt, 'linear', seed)
            # one phase step of 3.3 / 3.6 / 4.2 rad inside every cycle (legal: increasing, below the 1.5 pi wrap threshold)
            yield ('align', trip, 'affine-jump', npnt, 'linear', seed)


def decode_case(c):
    c = list(c)
    if c[0] in ('stat', 'stat-cycles'):
        c[1] = tuple(c[1])
    elif c[0] == 'bins':
        c[2] = tuple(c[2])
    else:
        c[1] = tuple(c[1])
    return tuple(c)


def check_stat_big(case):
    from emd.cycles import get_cycle_stat
    _, K, seed = case
    lens = 1 + (np.arange(K) * 5 + seed) % 7
    gaps = (np.arange(K) % 4 == 1).astype(int)
    parts = []
    for c in range(K):
        if gaps[c]:
            parts.append([-1])
        parts.append([c] * int(lens[c]))
    lab = np.concatenate(parts).astype(int)
    n = len(lab)
    vals = np.cos(np.arange(n) * 0.37) * (1 + (np.arange(n) % 13))
    viols = []
    trans = 0
    def last_minus_first(v):
        return v[-1] - v[0]

    def weighted(v):
        return float(np.dot(v, np.arange(len(v))))
    for name, f in (('mean', np.mean), ('max', np.max), ('sum', np.sum), ('len', len), ('first', first), ('last', last),
                    ('last_minus_first', last_minus_first), ('position_weighted', weighted)):
        want = np.array([f(vals[lab == c]) for c in range(K)], dtype=float)
        for out in (None, 'samples'):
            try:
                got = np.asarray(get_cycle_stat(lab.copy(), vals.copy(), out=out, func=f), dtype=float)
            except Exception as e:
                viols.append(('stat-big:raise:%s' % type(e).__name__, '%d cycles func=%s raised %r' % (K, name, e)))
                continue
            trans += 1
            exp = want if out is None else np.where(lab >= 0, want[np.maximum(lab, 0)], np.nan)
            if got.shape != exp.shape or not np.allclose(got, exp, rtol=1e-12, atol=1e-12, equal_nan=True):
                viols.append(('stat-big:value', '%d cycles func=%s out=%r: differs from direct per-label computation' % (K, name, out)))
    return Outcome(cls='stat:K=3', transitions=trans, viols=viols, nontrivial=True)


def check_stat_cycles(case):
    from emd.cycles import get_cycle_stat, Cycles
    _, lens, seed = case
    phase = np.concatenate([(np.arange(n) + 0.37) / n * 2 * np.pi for n in lens])
    n = len(phase)
    vals = np.sin(phase) * (1 + 0.01 * np.arange(n))
    starts = np.cumsum((0,) + tuple(lens[:-1]))
    viols = []
    trans = 0
    for cache in (True, False):
        C = Cycles(phase.copy(), use_cache=cache)
        for mode in ('cycle', 'augmented'):
            for name, f in (('mean', np.mean), ('max', np.max), ('first', first)):
                want = []
                for c, (a, ln) in enumerate(zip(starts, lens)):
                    if mode == 'cycle':
                        want.append(f(vals[a:a + ln]))
                    elif c == 0:
                        want.append(np.nan)
                    else:
                        pa = starts[c - 1]
                        i = a
                        while i > pa and phase[i - 1] > 1.5 * np.pi:
                            i -= 1
                        want.append(f(vals[i:a + ln]))
                want = np.array(want, dtype=float)
                for out in (None, 'samples'):
                    try:
                        got = np.asarray(get_cycle_stat(C, vals.copy(), mode=mode, out=out, func=f), dtype=float)
                    except Exception as e:
                        if mode == 'augmented' and not cache:
                            continue    # the uncached augmented path indexes with None for cycle 0: outside this oracle
                        viols.append(('stat-cycles:raise:%s' % type(e).__name__, 'cycle lengths %r mode=%s out=%r func=%s cache=%s raised %r' % (lens, mode, out, name, cache, e)))
                        continue
                    trans += 1
                    got = got.reshape(-1)       # the container keeps its cycle vector as a column; layout is not judged here
                    if out is None:
                        exp = want
                    else:
                        exp = np.repeat(want, lens)     # constant within each cycle (the cycle's own samples), nothing else
                    if got.shape != exp.shape or not np.allclose(got, exp, rtol=1e-12, atol=1e-12, equal_nan=True):
                        viols.append(('stat-cycles:%s:%s' % (mode, 'projection' if out else 'value'),
                                      'cycle lengths %r mode=%s out=%r func=%s cache=%s: got %s expected %s' % (
                                          lens, mode, out, name, cache, got.tolist()[:8], exp.tolist()[:8])))
    # the same requests with a pre-built iterator (C.iterate()) in place of the container: the mode asked for in the call governs
    from emd.cycles import phase_align
    C = Cycles(phase.copy())
    for mode in ('cycle', 'augmented'):
        for other in ('cycle', 'augmented'):
            try:
                a_ = np.asarray(get_cycle_stat(C, vals.copy(), mode=mode, func=np.max), dtype=float)
                b_ = np.asarray(get_cycle_stat(C.iterate(through='cycles', mode=other), vals.copy(), mode=mode, func=np.max), dtype=float)
                pa_ = np.asarray(phase_align(phase.copy(), vals.copy(), cycles=C, npoints=12, mode=mode)[0], dtype=float)
                pb_ = np.asarray(phase_align(phase.copy(), vals.copy(), cycles=C.iterate(through='cycles', mode=other), npoints=12, mode=mode)[0], dtype=float)
            except Exception as e:
                viols.append(('stat-cycles:iterator-route:raise:%s' % type(e).__name__, 'cycle lengths %r mode=%s iterator built with mode=%s raised %r' % (lens, mode, other, e)))
                continue
            trans += 4
            if a_.shape != b_.shape or not np.allclose(a_, b_, rtol=1e-12, atol=1e-12, equal_nan=True):
                viols.append(('stat-cycles:iterator-route:stat', 'cycle lengths %r: get_cycle_stat(mode=%s) through an iterator built with mode=%s differs from the container route' % (lens, mode, other)))
            if pa_.shape != pb_.shape or not np.allclose(pa_, pb_, rtol=1e-12, atol=1e-12, equal_nan=True):
                viols.append(('stat-cycles:iterator-route:align', 'cycle lengths %r: phase_align(mode=%s) through an iterator built with mode=%s differs from the container route' % (lens, mode, other)))
    return Outcome(cls='stat:K=3', transitions=trans, viols=viols, nontrivial=True)


def check_case(case):
    return {'stat-cycles': check_stat_cycles, 'stat': check_stat, 'bins': check_bins, 'align': check_align, 'stat-big': check_stat_big}[case[0]](case)


class Recorder:
    def __init__(self):
        self.seen = []

    def __call__(self, v):
        self.seen.append(tuple(np.asarray(v).tolist()))
        return float(len(self.seen))


def first(v):
    return v[0]


def last(v):
    return v[-1]


def check_stat(case):
    o = check_stat_dtype(case, float)
    if len(case[1]) <= 6:
        # integer and boolean observations: the statistic is the function's value, whatever the dtype of the samples
        for dt in (np.int64, np.uint8, bool):
            o2 = check_stat_dtype(case, dt)
            o.viols.extend(o2.viols)
            o.transitions += o2.transitions
    return o


def check_stat_dtype(case, dtype):
    from emd.cycles import get_cycle_stat
    _, v, seed = case
    lab = np.array(v, dtype=int)
    n = len(lab)
    vals = 2.0 ** (np.arange(n) + seed % 3)
    if dtype is not float:
        vals = (np.arange(n) * 3 + 1 + seed % 3).astype(dtype) if dtype is not bool else (np.arange(n) % 3 != 1)
    K = int(lab.max()) + 1
    viols = []
    trans = 0
    funcs = [('mean', np.mean), ('max', np.max), ('sum', np.sum), ('len', len), ('first', first), ('last', last)]
    for name, f in funcs:
        with np.errstate(all='ignore'):
            want = np.array([f(vals[lab == c]) for c in range(K)], dtype=float)
        for out in (None, 'samples'):
            try:
                # caller-owned buffers refilled in place from call to call (one pair per shape / dtype)
                val_in = _refill(vals, 'val')
                lab_in = _refill.primed(lab, 'lab', lambda b_: get_cycle_stat(b_, val_in, out=out, func=f))
                got = get_cycle_stat(lab_in, val_in, out=out, func=f)
            except Exception as e:
                viols.append(('stat:raise:%s' % type(e).__name__, 'labels=%s func=%s out=%r raised %r' % (list(v), name, out, e)))
                continue
            trans += 1
            if not (np.array_equal(lab_in, lab) and np.array_equal(val_in, vals)):
                viols.append(('stat:input-modified', 'labels=%s func=%s out=%r: the label or value array was changed' % (list(v), name, out)))
            for m_ in _holder.swap(got, 'get_cycle_stat labels=%s func=%s out=%r' % (list(v), name, out)):
                viols.append(('stat:earlier-result-changed', m_))
            got = np.asarray(got, dtype=float)
            if out is None:
                exp = want
            else:
                exp = np.full(n, np.nan)
                for c in range(K):
                    exp[lab == c] = want[c]
            if got.shape != exp.shape or not np.array_equal(got, exp, equal_nan=True):
                viols.append(('stat:value:out=%s%s' % (out, '' if dtype is float else ':non-float-values'), 'labels=%s values=%s func=%s out=%r: got %s expected %s' % (
                    list(v), vals.tolist(), name, out, got.tolist(), exp.tolist())))
    rec = Recorder()
    try:
        get_cycle_stat(lab.copy(), vals.copy(), func=rec)
        trans += 1
        want_seen = [tuple(vals[lab == c].tolist()) for c in range(K)]
        if [tuple(float(z) for z in t) for t in rec.seen] != [tuple(float(z) for z in t) for t in want_seen]:
            viols.append(('stat:samples-handed', 'labels=%s: function was handed %s expected %s' % (list(v), rec.seen, want_seen)))
    except Exception as e:
        viols.append(('stat:raise:%s' % type(e).__name__, 'labels=%s recorder raised %r' % (list(v), e)))
    return Outcome(cls='stat:K=%d' % min(K, 3), transitions=trans, viols=viols, nontrivial=K >= 2)


def check_bins(case):
    from emd.cycles import bin_by_phase
    from emd.spectra import define_hist_bins
    _, nb, s, seed = case
    edges, centres = define_hist_bins(0, 2 * np.pi, nb)
    al = []
    for b in range(nb):
        al += [float(edges[b]), float(centres[b])]
    ip = np.array([al[i] for i in s])
    x = 2.0 ** (np.arange(len(s)) + seed % 3)
    viols = []
    try:
        avg, var, cent = bin_by_phase(ip.copy(), x.copy(), nbins=nb)
    except Exception as e:
        return Outcome(cls='bins:raise', viols=[('bins:raise:%s' % type(e).__name__, 'ip=%s nbins=%d raised %r' % (ip.tolist(), nb, e))])
    avg = np.asarray(avg, dtype=float)
    exp = np.full(nb, np.nan)
    filled = 0
    for b in range(nb):
        sel = np.logical_and(ip >= edges[b], ip < edges[b + 1])
        if sel.any():
            exp[b] = x[sel].mean()
            filled += 1
    if avg.shape != exp.shape or not np.allclose(avg, exp, rtol=1e-12, atol=0, equal_nan=True):
        bad = [b for b in range(nb) if avg.shape == exp.shape and not np.isclose(avg[b], exp[b], rtol=1e-12, atol=0, equal_nan=True)]
        kind = 'bins:last-bin' if bad == [nb - 1] else 'bins:value'
        viols.append((kind, 'ip=%s x=%s nbins=%d: avg %s expected %s' % (ip.tolist(), x.tolist(), nb, avg.tolist(), exp.tolist())))
    if not np.allclose(cent, centres):
        viols.append(('bins:centres', 'nbins=%d centres %s' % (nb, np.asarray(cent).tolist())))
    trans = 1
    if not viols and len(s) <= 3:
        # values with trailing dimensions ([samples x k], [samples x a x b], a != b and a == b), and explicit unit weights:
        # every trailing element is binned like the vector it is
        for shp in ((2,), (2, 3), (2, 2)):
            fac = 1.0 + np.arange(int(np.prod(shp))).reshape(shp)
            xx = x.reshape((-1,) + (1,) * len(shp)) * fac
            for w in (None, np.ones(len(s))) if len(shp) == 1 else (None,):     # (weights are per sample; with 3-d values numpy's average refuses them)
                try:
                    a2 = np.asarray(bin_by_phase(ip.copy(), xx.copy(), nbins=nb, weights=None if w is None else w.copy())[0], dtype=float)
                except Exception as e:
                    viols.append(('bins:raise:trailing-dims', 'ip=%s values of shape %r weights=%s raised %r' % (ip.tolist(), xx.shape, w is not None, e)))
                    continue
                trans += 1
                want = exp.reshape((-1,) + (1,) * len(shp)) * fac
                if a2.shape != want.shape or not np.allclose(a2, want, rtol=1e-12, atol=0, equal_nan=True):
                    viols.append(('bins:trailing-dims', 'ip=%s values of shape %r weights=%s: bin means %s expected %s' % (
                        ip.tolist(), xx.shape, w is not None, a2.tolist(), want.tolist())))
    return Outcome(cls='bins', transitions=trans, viols=viols, nontrivial=0 < filled < nb)


def quantity(q, phi):
    if q == 'affine':
        return 3.0 * phi - 2.0, 0.0
    if q == 'sin':
        return np.sin(phi), 1.0
    if q == 'cos2':
        return np.cos(2 * phi), 4.0
    return phi ** 2, 2.0


def cycle_phase(n, j):
    """Phase samples of the j-th cycle of a triple: complete uniform ramps, except that the first cycle starts late,
    the last one ends early (partial cycles at the record ends) and the middle one runs at non-uniform speed."""
    u = (np.arange(n) + 0.5) / n
    if j == 0:
        u = 0.3 + 0.7 * u
    elif j == 1:
        u = u ** 1.6
    else:
        u = 0.8 * u
    return u * 2 * np.pi


def jump_phase(n, j):
    """n increasing phase samples in (0, 2 pi) with one step of 3.3 / 3.6 / 4.2 rad between two neighbours."""
    J = (3.3, 3.6, 4.2)[j % 3]
    k = max(1, n // 2)
    lo = 0.05 + 0.9 * (np.arange(k) + 0.5) / k
    m = n - k
    hi = lo[-1] + J + (2 * np.pi - 0.02 - lo[-1] - J) * (np.arange(m) + 0.0) / max(m, 1)
    return np.r_[lo, hi]


def check_align(case):
    from emd.cycles import phase_align
    from emd.spectra import define_hist_bins
    _, trip, q, npnt, kind, seed = case
    if q.endswith('-jump'):
        q = q[:-5]
        ph = np.concatenate([jump_phase(n, j + seed) for j, n in enumerate(trip)])
        partial = True
    elif q.endswith('-partial'):
        q = q[:-8]
        ph = np.concatenate([cycle_phase(n, j) for j, n in enumerate(trip)])
        partial = True
    else:
        ph = np.concatenate([(np.arange(n) + 0.5) / n * 2 * np.pi for n in trip])
        partial = False
    x, M = quantity(q, ph)
    viols = []
    try:
        avg, grid = phase_align(ph.copy(), x.copy(), npoints=npnt, interp_kind=kind)
    except Exception as e:
        return Outcome(cls='align:raise', viols=[('align:raise:%s' % type(e).__name__, 'lengths=%r %s npoints=%d kind=%s raised %r' % (trip, q, npnt, kind, e))])
    avg = np.asarray(avg)
    want_grid = define_hist_bins(0, 2 * np.pi, npnt)[1]
    if avg.shape != (npnt, 3) or not np.allclose(grid, want_grid, rtol=1e-14):
        viols.append(('align:shape', 'lengths=%r npoints=%d: shape %r grid %s' % (trip, npnt, avg.shape, np.asarray(grid).tolist()[:4])))
        return Outcome(cls='align', viols=viols)
    truth, _ = quantity(q, want_grid)
    judged = 0
    for c, n in enumerate(trip):
        h = 2 * np.pi / n
        if partial:
            # only the exactness clause is judged: a quantity linear in phase is reproduced exactly (linear kind
            # interpolates and extrapolates affine data exactly wherever the grid point lies)
            if q != 'affine' or kind != 'linear':
                continue
            tol = 1e-9
        elif q == 'affine':
            tol = 1e-9 if kind != 'nearest' else 3.0 * h / 2 + 1e-9
        elif kind == 'linear':
            tol = M * h * h / 2 + 1e-9
        else:
            continue
        judged += 1
        err = np.max(np.abs(avg[:, c] - truth))
        if not err <= tol:
            viols.append(('align:value:%s' % kind, 'lengths=%r quantity=%s npoints=%d kind=%s cycle %d: max error %.3g > tol %.3g' % (
                trip, q, npnt, kind, c, err, tol)))
    return Outcome(cls='align', transitions=1, viols=viols, nontrivial=len(set(trip)) > 1 and judged > 0)


def snippet(case, kind):
    if case[0] == 'bins':
        _, nb, s, seed = case
        return ('import numpy as np, emd\nedges, c = emd.spectra.define_hist_bins(0, 2*np.pi, %d)\n'
                'al = np.c_[edges[:-1], c].reshape(-1)\nip = al[%r]\nx = 2.0 ** np.arange(len(ip))\n'
                'print(emd.cycles.bin_by_phase(ip, x, nbins=%d)[0])  # every bin holding samples must hold their mean\n' % (nb, list(s), nb))
    if case[0] == 'stat':
        return ('import numpy as np, emd\nlab = np.array(%r); v = 2.0 ** np.arange(len(lab))\n'
                'print(emd.cycles.get_cycle_stat(lab, v, func=np.sum))\n' % (list(case[1]),))
    return None


def nonvacuity(rep, ctx):
    need = {'stat:K=0', 'stat:K=1', 'stat:K=2', 'stat:K=3', 'bins', 'align'}
    if not need <= set(rep.classes):
        return ['vacuous: outcome classes %r' % dict(rep.classes)]
    return []
