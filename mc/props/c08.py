"""C08 - ensemble sifts average genuinely independent noise realisations.

Explorer S: emd.sift.mp is replaced by the controlled fork pool; for every (ensemble size E, processes P, noise mode,
noise level, signal) EVERY canonical assignment of task chunks to workers is executed.  A seam on emd.sift.sift
records, in whichever process it runs, the exact array handed to each member's sift: the noise actually added is that
array minus the input.  The ensemble output is compared with the per-IMF mean of member decompositions recomputed in
the parent from the traced arrays.  The real multiprocessing.Pool is run on the same harness bodies and each observed
run must be a member of the enumerated schedule space with the same observations (conformance).
"""
import functools
import os
import numpy as np

from ..engine.explore import Outcome, Report
from ..engine import forkpool, guard, enum
from . import signals

PID = 'C08'
TIMEOUT = 120.0
RULE = ('every canonical chunk->worker assignment (set partitions of the chunks into <= P blocks) for each '
        '(variant, signal, E, P, mode, noise level); identical (chunking, partition) pairs arising from different P are '
        'executed once, plus the all-on-one-worker schedule for every P; non-trivial = schedule uses >= 2 workers')
ASSUMPTIONS = ['Pool.starmap chunking follows CPython (chunksize = ceil(ntasks / (4*P))); per-worker order is ascending; '
               'conformance runs under the stock fork pool check exactly that',
               'workers share no memory, so executing chunks one at a time loses no behaviour',
               'worker death, spawn/forkserver start methods and maxtasksperchild are not modelled',
               'ensemble members that yield different numbers of IMFs are averaged over the IMFs present in all members']

_orig = {}
_serial_ceemd = {}


def install_seams():
    import emd.sift as S
    if _orig:
        return
    _orig['sift'] = S.sift
    _orig['swn'] = S._sift_with_noise

    @functools.wraps(S.sift)
    def sift(X, *a, **k):
        forkpool.TRACE.append(('sift', np.array(X, dtype=float).copy()))
        return _orig['sift'](X, *a, **k)

    @functools.wraps(S._sift_with_noise)
    def _sift_with_noise(*a, **k):
        job = a[6] if len(a) > 6 else k.get('job_ind', 1)
        forkpool.TRACE.append(('job', job))
        try:
            return _orig['swn'](*a, **k)
        finally:
            forkpool.TRACE.append(('endjob', job))
    S.sift = sift
    S._sift_with_noise = _sift_with_noise


SIGNALS = [('tone', 32, 2, 'lin', 'none'), ('tone', 48, 2, 'none', 'am')]
XOPTS = {'pad_width': 4, 'parabolic_extrema': True}
SIGMAS = (0.0, 0.2, 2.0)


def bounds(tier):
    if tier == 'quick':
        return {'E': (1, 2, 3, 4, 5, 6), 'P': (1, 2, 3, 4), 'ceemd': [(2, 2), (2, 1), (1, 2)], 'signals': 1, 'real_runs': 4}
    return {'E': tuple(range(1, 9)), 'P': tuple(range(1, 9)), 'ceemd': [(1, 1), (1, 2), (2, 1), (2, 2), (3, 2), (3, 1)],
            'signals': 2, 'real_runs': 10}


def nchunks(ntasks, P):
    cs, extra = divmod(ntasks, 4 * P)
    if extra:
        cs += 1
    return -(-ntasks // cs), cs


def build_cases(tier, seed):
    b = bounds(tier)
    out = []
    for si in range(b['signals']):
        for mode in ('single', 'flip'):
            for sg in SIGMAS:
                for E in b['E']:
                    seen = set()
                    for P in b['P']:
                        C, cs = nchunks(E, P)
                        first = True
                        for rgs in enum.restricted_growth_strings(C, P):
                            key = (cs, rgs)
                            if key in seen and not first:
                                continue
                            first = False
                            seen.add(key)
                            out.append(('ens', si, E, P, mode, sg, rgs, seed))
    # larger scope: ensembles beyond 16 members (several jobs per chunk, batch sizes) - every schedule of the 4..6 chunks
    for si in range(1):
        for mode in ('single', 'flip'):
            for (E, P) in ((17, 1), (20, 1), (17, 2)) if tier == 'quick' else ((17, 1), (20, 1), (33, 1), (17, 2), (24, 2), (40, 3)):
                C, cs = nchunks(E, P)
                for rgs in enum.restricted_growth_strings(C, P):
                    out.append(('ens', si, E, P, mode, 0.2, rgs, seed))
    # larger scope: an ensemble of well over a thousand members - all pairwise different (a noise source with few
    # distinct states, e.g. short per-member seeds, repeats itself long before that)
    for (E, P) in ((1500, 1),) if tier == 'quick' else ((1500, 1), (3000, 2)):
        C, cs = nchunks(E, P)
        out.append(('ens', 0, E, P, 'single', 0.2, tuple(i % P for i in range(C)), seed))
    # non-default extrema options (they must govern both sifts of a flip member and every worker), and data in small
    # physical units (std ~ 1e-12: the noise is a proportion of it, never "numerically zero")
    for mode in ('single', 'flip'):
        for (E, P) in ((2, 1), (3, 2)):
            C, cs = nchunks(E, P)
            for rgs in enum.restricted_growth_strings(C, P):
                out.append(('ens-opts', 0, E, P, mode, 0.3, rgs, seed))
                out.append(('ens-tiny', 0, E, P, mode, 0.2, rgs, seed))
    # integer-typed input (ADC counts): same rules
    for mode in ('single', 'flip'):
        for sg in (0.0, 0.3):
            for (E, P) in ((3, 1), (4, 2)):
                C, cs = nchunks(E, P)
                for rgs in enum.restricted_growth_strings(C, P):
                    out.append(('ens-int', 0, E, P, mode, sg, rgs, seed))
    # no IMF cap: members (and the +/- pair of a flip member) may find different numbers of IMFs
    for si in range(b['signals']):
        for mode in ('single', 'flip'):
            for sg in (0.7, 2.0):
                for E in (1, 2, 3) if tier == 'quick' else (1, 2, 3, 4, 5):
                    for P in (1, 2):
                        C, cs = nchunks(E, P)
                        for rgs in enum.restricted_growth_strings(C, P):
                            # several noise draws: about one flip member in seven finds more IMFs with +noise than with -noise
                            for rs in range(6 if tier == 'quick' else 12):
                                out.append(('ens-nocap', si, E, P, mode, (sg, rs), rgs, seed))
    for si in range(b['signals']):
        for (E, P) in b['ceemd']:
            for mode in ('single', 'flip'):
                for sg in (0.2,) if tier == 'quick' else SIGMAS:
                    C, cs = nchunks(E, P)
                    for rgs in enum.restricted_growth_strings(4 * C, P):
                        out.append(('ceemd', si, E, P, mode, sg, rgs, seed))
    return out


def cases(tier, seed):
    return build_cases(tier, seed)


def decode_case(c):
    c = list(c)
    if c[0] != 'conformance':
        c[6] = tuple(c[6])
        if isinstance(c[5], list):
            c[5] = tuple(c[5])
    return tuple(c)


def signal_of(si, seed):
    return signals.fb_signal(SIGNALS[si], seed)


def run_controlled(case):
    """Execute one schedule; return (result | exception, ControlledMP)."""
    import emd.sift as S
    kind, si, E, P, mode, sg, rgs, seed = case
    x = signal_of(si, seed)
    if kind == 'ens-int':
        x = np.round(x * 40).astype(np.int16)
    if kind == 'ens-tiny':
        x = x * 1e-12
    extra = {'extrema_opts': dict(XOPTS)} if kind == 'ens-opts' else {}
    rs = 0
    if isinstance(sg, (tuple, list)):
        sg, rs = sg
    np.random.seed(100 + seed + 1000 * rs)
    cm = forkpool.ControlledMP([list(rgs)])
    with forkpool.installed(cm):
        try:
            if kind in ('ens', 'ens-nocap', 'ens-int', 'ens-opts', 'ens-tiny'):
                res = S.ensemble_sift(x.copy(), nensembles=E, nprocesses=P, noise_mode=mode, ensemble_noise=sg,
                                      max_imfs=None if kind == 'ens-nocap' else 2, **extra)
            else:
                res = S.complete_ensemble_sift(x.copy(), nensembles=E, nprocesses=P, noise_mode=mode, ensemble_noise=sg, max_imfs=2)
        except forkpool.HarnessError:
            raise
        except Exception as e:
            res = e
    return res, cm, x


def jobs_from_log(log):
    """-> {job index: [arrays handed to sift]} (first stage only for ceemd), list of direct sift arrays."""
    jobs = []
    direct = []
    for entry in log:
        cur = None
        for rec in entry['trace']:
            if rec[0] == 'job':
                cur = [rec[1], [], entry['worker']]
            elif rec[0] == 'endjob':
                jobs.append(cur)
                cur = None
            elif rec[0] == 'sift':
                if cur is None:
                    direct.append(rec[1])
                else:
                    cur[1].append(rec[1])
    return jobs, direct


def member_mean(arrs_per_member, cap, opts=None):
    """Per-IMF mean over members of sift(traced array); flip members are the mean of their +/- decompositions."""
    sift = _orig['sift']
    mem = []
    for arrs in arrs_per_member:
        ds = [np.asarray(sift(a.copy(), max_imfs=cap, **(opts or {}))) for a in arrs]
        n = min(d.shape[1] for d in ds)
        mem.append(sum(d[:, :n] for d in ds) / len(ds))
    n = min(m.shape[1] for m in mem)
    return np.mean([m[:, :n] for m in mem], axis=0)


def check_case(case):
    install_seams()
    if case[0] == 'conformance':
        validated, problems = real_pool_runs(case[1], case[2])
        return Outcome(cls='conformance', viols=[('conformance', p_) for p_ in problems[:1]], validated=validated)
    kind, si, E, P, mode, sg, rgs, seed = case
    tag = '%s signal=%d E=%d P=%d mode=%s noise=%r schedule=%s' % (kind, si, E, P, mode, sg, list(rgs))
    res, cm, x = run_controlled(case)
    if isinstance(sg, (tuple, list)):
        sg = sg[0]
    N = len(x)
    viols = []
    nworkers_used = len(set(rgs))
    if isinstance(res, Exception):
        return Outcome(cls='raise', viols=[('%s:raise:%s' % (kind, type(res).__name__), '%s raised %r' % (tag, res))])
    jobs, direct = jobs_from_log(cm.log)
    scale = 1e-12 * ((1e-12 if case[0] == 'ens-tiny' else 1) + np.max(np.abs(x)))      # relative to the data's own unit
    X = x[:, None]
    nper = 2 if mode == 'flip' else 1
    nocap = kind == 'ens-nocap'
    member_opts = {'extrema_opts': dict(XOPTS)} if kind == 'ens-opts' else {}
    if kind in ('ens-nocap', 'ens-int', 'ens-opts', 'ens-tiny'):
        kind = 'ens'
    x = np.asarray(x, dtype=float)
    if kind == 'ens':
        imf = np.asarray(res)
        stage = sorted(jobs, key=lambda j: j[0])
        if [j[0] for j in stage] != list(range(E)) or any(len(j[1]) != nper for j in stage):
            return Outcome(cls='harness', viols=[('ens:trace', '%s: traced jobs %r' % (tag, [(j[0], len(j[1])) for j in stage]))])
    else:
        imf, nz = res
        imf = np.asarray(imf)
        nz = np.asarray(nz)
        if nz.shape != (N, E):
            viols.append(('ceemd:noise-shape', '%s: returned noise has shape %r' % (tag, nz.shape)))
        stage = sorted(jobs[:E], key=lambda j: j[0])   # first starmap = the first-IMF ensemble
        if [j[0] for j in stage] != list(range(E)):
            return Outcome(cls='harness', viols=[('ceemd:trace', '%s: traced jobs %r' % (tag, [j[0] for j in jobs]))])
    arrs = [j[1] for j in stage]
    # (1) independence of the realisations
    noises = [a[0] - X for a in arrs]
    ndistinct = len({n.tobytes() for n in noises})
    if sg > 0 and ndistinct != E:
        viols.append(('%s:shared-noise' % kind, '%s: only %d distinct noise realisations for %d members (workers per member: %s)' % (
            tag, ndistinct, E, [j[2] for j in stage])))
    if sg > 0 and any(not np.any(n != 0) for n in noises):
        viols.append(('%s:no-noise' % kind, '%s: a member was sifted without noise' % tag))
    if mode == 'flip':
        for a in arrs:
            if not np.max(np.abs((a[0] + a[1]) / 2 - X)) <= scale:
                viols.append(('%s:flip-pair' % kind, '%s: the two sifts of a member are not input +/- the same noise' % tag))
                break
    # (2) the output is the per-IMF mean over members
    want = member_mean(arrs, (None if nocap else 2) if kind == 'ens' else 1, member_opts)
    got = imf if kind == 'ens' else imf[:, :1]
    if got.shape != want.shape or not np.max(np.abs(got - want)) <= scale:
        viols.append(('%s:not-the-mean' % kind, '%s: output differs from the mean of member decompositions (shape %r vs %r%s)' % (
            tag, got.shape, want.shape, '' if got.shape != want.shape else ', max diff %.3g' % np.max(np.abs(got - want)))))
    # (2b) complete ensemble: every later layer pairs each member with ITS OWN noise column, so the whole result (IMFs
    # and the returned noise matrix) is that of the one-process run with the same random stream
    if kind == 'ceemd':
        key = (si, E, mode, sg, seed)
        if key not in _serial_ceemd:
            import emd.sift as S
            np.random.seed(100 + seed)
            with forkpool.installed(forkpool.SerialMP()):
                r_imf, r_nz = S.complete_ensemble_sift(x.copy(), nensembles=E, nprocesses=1, noise_mode=mode, ensemble_noise=sg, max_imfs=2)
            _serial_ceemd[key] = (np.asarray(r_imf), np.asarray(r_nz))
            del forkpool.TRACE[:]
        r_imf, r_nz = _serial_ceemd[key]
        if imf.shape != r_imf.shape or nz.shape != r_nz.shape or not (np.max(np.abs(imf - r_imf)) <= scale and np.max(np.abs(nz - r_nz)) <= scale * 10):
            viols.append(('ceemd:depends-on-schedule', '%s: IMFs / noise matrix differ from the one-process run with the same random stream' % tag))
    # (3) zero noise reduces to the classic sift
    if sg == 0 and kind == 'ens' and not nocap:
        ref = np.asarray(_orig['sift'](x.copy(), max_imfs=2))
        if imf.shape != ref.shape or not np.max(np.abs(imf - ref)) <= scale:
            viols.append(('ens:zero-noise', '%s: zero-noise ensemble differs from sift(x, max_imfs=2)' % tag))
    out = Outcome(cls='%s:%s' % (kind, 'multi-worker' if nworkers_used > 1 else 'one-worker'), transitions=sum(sum(i['chunks']) for i in cm.pools),
                  viols=viols, nontrivial=nworkers_used > 1)
    out.digest = (ndistinct, np.asarray(imf).tobytes())
    return out


# ---------------------------------------------------------------------------------------------------------------
# conformance: the stock multiprocessing pool must behave like a member of the enumerated space

def real_pool_runs(tier, seed):
    """Run ensemble_sift under the real fork pool with file-writing seams; return (nvalidated, problems)."""
    import emd.sift as S
    import multiprocessing as mp
    import tempfile
    import pickle
    install_seams()
    b = bounds(tier)
    problems = []
    validated = 0
    tmproot = os.path.join(os.path.dirname(os.path.dirname(os.path.dirname(os.path.abspath(__file__)))), 'out', 'tmp')
    os.makedirs(tmproot, exist_ok=True)
    orig_swn = S._sift_with_noise

    for (E, P, mode) in [(4, 2, 'single'), (5, 3, 'flip'), (3, 2, 'single'), (8, 2, 'single')][:b['real_runs'] // 2 + 1]:
        for rep_i in range(2):
            d = tempfile.mkdtemp(dir=tmproot)

            @functools.wraps(orig_swn)
            def logging_swn(*a, **k):
                job = a[6] if len(a) > 6 else k.get('job_ind', 1)
                del forkpool.TRACE[:]
                r = orig_swn(*a, **k)
                arrs = [rec[1] for rec in forkpool.TRACE if rec[0] == 'sift']
                with open(os.path.join(d, 'job%d.pkl' % job), 'wb') as f:
                    pickle.dump((os.getpid(), job, arrs), f)
                return r
            S._sift_with_noise = logging_swn
            x = signal_of(0, seed)
            try:
                np.random.seed(100 + seed)
                with guard.watchdog(120):
                    res = S.ensemble_sift(x.copy(), nensembles=E, nprocesses=P, noise_mode=mode, ensemble_noise=0.2, max_imfs=2)
            except Exception as e:
                problems.append('real pool E=%d P=%d raised %r' % (E, P, e))
                continue
            finally:
                S._sift_with_noise = orig_swn
            recs = {}
            for fn in os.listdir(d):
                with open(os.path.join(d, fn), 'rb') as f:
                    pid, job, arrs = pickle.load(f)
                recs[job] = (pid, arrs)
                os.unlink(os.path.join(d, fn))
            os.rmdir(d)
            if sorted(recs) != list(range(E)):
                problems.append('real pool E=%d P=%d: jobs seen %r' % (E, P, sorted(recs)))
                continue
            C, cs = nchunks(E, P)
            pids = [recs[j][0] for j in range(E)]
            # one worker per chunk
            chunk_pid = []
            okc = True
            for c in range(C):
                ps = set(pids[c * cs:(c + 1) * cs])
                if len(ps) != 1:
                    okc = False
                chunk_pid.append(pids[c * cs])
            if not okc or len(set(pids)) > P:
                problems.append('real pool E=%d P=%d: observed job->pid map %r is not a chunk->worker function with chunksize %d' % (E, P, pids, cs))
                continue
            # canonical restricted-growth string of the observed assignment
            names = {}
            rgs = []
            for p_ in chunk_pid:
                names.setdefault(p_, len(names))
                rgs.append(names[p_])
            case = ('ens', 0, E, P, mode, 0.2, tuple(rgs), seed)
            cres, cm, _ = run_controlled(case)
            jobs, _ = jobs_from_log(cm.log)
            jobs = sorted(jobs, key=lambda j: j[0])
            same_out = (not isinstance(cres, Exception)) and np.array_equal(np.asarray(cres), np.asarray(res))
            same_in = all(len(jobs[j][1]) == len(recs[j][1]) and all(np.array_equal(a, b_) for a, b_ in zip(jobs[j][1], recs[j][1]))
                          for j in range(E))
            if not (same_out and same_in):
                problems.append('real pool E=%d P=%d schedule %r: observations differ from the controlled pool for the same assignment '
                                '(outputs equal: %s, member inputs equal: %s)' % (E, P, rgs, same_out, same_in))
                continue
            validated += 1
    return validated, problems


def run(ctx):
    install_seams()
    caselist = build_cases(ctx.tier, ctx.seed)
    # determinism: the first schedules are executed twice and must give identical observations
    for case in [c for c in caselist if not isinstance(c[5], tuple) and c[5] > 0 and len(set(c[6])) > 1][:3]:
        a = check_case(case)
        b_ = check_case(case)
        if a.digest != b_.digest:
            raise guard.HarnessError('schedule replay is not deterministic for %r' % (case,))
    rep = ctx.explore(lambda: caselist, check_case, timeout_s=TIMEOUT, init=install_seams)
    validated, problems = real_pool_runs(ctx.tier, ctx.seed)
    rep.validated = validated
    for p_ in problems:
        rep.viols.setdefault('conformance', [0, 10 ** 9, ('conformance', ctx.tier, ctx.seed), p_])[0] += 1
    ctx.coverage_extra['schedules_executed'] = rep.evaluations
    ctx.coverage_extra['real_pool_conformance_runs'] = validated
    return rep


def worker_init():
    install_seams()


def bounds_doc(tier):
    return bounds(tier)


def nonvacuity(rep, ctx):
    need = {'ens:multi-worker', 'ens:one-worker', 'ceemd:multi-worker'}
    errs = []
    if not need <= set(rep.classes):
        errs.append('vacuous: outcome classes %r' % dict(rep.classes))
    if rep.validated == 0 and 'conformance' not in rep.viols:
        errs.append('no real-pool conformance run could be validated')
    return errs
