"""C15 - the cycle container keeps metrics, subsets and chains coherent.

Explorer H: BFS over operation histories on real `emd.cycles.Cycles` objects - each container is built twice
(slice cache on / off) and driven in lock-step - against a reference model (plain dict of lists).  Canonical state =
(metric names and rounded values, subset vector, chain vector, conditions): everything the container reads, so states
with equal canonical form have equal futures and the search runs to the fix-point of canonical states (or the depth
bound).  After every transition: every stored metric, the subset / chain vectors, get_matching_cycles for every
condition list of the menu and the three tabular exports are compared with the model, and cache-on with cache-off.
"""
import collections
import re
import numpy as np

from ..engine.explore import Outcome, Report
from ..engine import history
from .c12 import ref_partition
from .c13 import criteria

PID = 'C15'
TIMEOUT = 60.0
RULE = ('BFS from 7 containers (one with zero cycles, one with cycles of thousands of samples - depth 2 only) over 30 state-changing operations (8 metric computations in cycle / augmented mode, 4 metric '
        'additions incl. a wrong-length one, 2 re-additions of a stored chain metric under another name, cycle timings, 14 subset selections covering all six comparators, '
        'negative / decimal / exponent literals and chain-level metrics, chain timings) to the fix-point of canonical states or the depth bound; '
        '17 observations (queries, three iterators, three tables) after every transition; non-trivial = the operation changed the canonical state')
ASSUMPTIONS = ['subset selections are only offered when every metric they name exists (a failed selection leaves the '
               'container half-updated; that error path is outside the statement)',
               'augmented-mode metrics are judged against the model only for cycles whose preceding cycle has monotone '
               'phase (both documented readings of "closest trough to the left" coincide there); cache-on vs cache-off is '
               'compared for every cycle',
               'metric values are compared to 1e-12 relative']

STEP = 1.5 * np.pi
EDGE = np.pi / 12


def phases(seed):
    """Six deterministic phase series (one of them wrap-free: a container with zero cycles)."""
    out = collections.OrderedDict()

    def ramp(lengths, start=0.0, first_partial=0.0):
        parts = []
        for i, n in enumerate(lengths):
            lo = first_partial if i == 0 else 0.0
            parts.append(lo + (np.arange(n) + 0.37) / n * (2 * np.pi - lo))
        return np.concatenate(parts)
    out['regular'] = ramp([24, 24, 12, 24, 24, 24])
    noisy = ramp([20, 28, 18, 32, 22])
    noisy = noisy.copy()
    # one bad cycle: a phase reversal inside the third cycle
    a = 20 + 28
    noisy[a + 4], noisy[a + 5] = noisy[a + 5], noisy[a + 4]
    out['noisy'] = noisy
    wl = ramp([18, 13, 16])
    out['wrap-last'] = np.r_[wl, 0.3]
    out['single'] = np.r_[ramp([7], first_partial=3.0), ramp([15])[:9]]
    out['no-wrap'] = np.linspace(0.1, 3.0, 17)
    out['long-cycles'] = ramp([40, 5000, 60, 4500, 50, 30])     # larger scope: cycles of several thousand samples
    out['mixed11'] = ramp([5, 21, 8, 13, 6, 34, 9, 7, 17, 11, 10][seed % 3:] + [12, 6][:seed % 3])
    return out


def signals_for(phase):
    n = len(phase)
    A = np.sin(phase) * (1 + 0.3 * np.cos(2 * np.pi * np.arange(n) / n)) + 0.05 * np.arange(n) / n
    B = np.arange(n) * 0.013 - 0.9
    return {'A': A, 'B': B}


def first(v):
    return v[0]


FUNCS = {'max': np.max, 'mean': np.mean, 'len': len, 'first': first}
COMPUTE = [('m1', 'A', 'max', 'cycle'), ('m1', 'B', 'mean', 'cycle'), ('m1', 'A', 'len', 'cycle'), ('m1', 'A', 'first', 'augmented'),
           ('m2', 'B', 'max', 'cycle'), ('m2', 'A', 'mean', 'augmented'), ('m2', 'B', 'len', 'augmented'), ('m1', 'B', 'first', 'cycle')]
ADD = [('m1', 'arange'), ('m2', 'alt'), ('m3', 'wrong-length'), ('m1', 'big')]
CONDS = [
    ['is_good==1'],
    ['is_good!=1'],
    ['m1>0.5'],
    ['m1<=0.5', 'is_good==1'],
    ['m2>=-0.5'],
    ['m2<-0.25', 'm1>=1e-3'],
    ['duration>13', 'duration<=24'],
    ['m1>1e9'],
    ['is_good>=0'],
    ['m2!=-1', 'm1<2.5e1'],
    ['m1==1600000002'],          # large-magnitude metric (time stamps): equality is exact, not "close"
    ['m1!=1600000001', 'is_good>=0'],
    ['chain_position==0'],       # conditions on chain-level metrics (written by the chain timings, not by the user)
    ['chain_len_cycles>=2', 'is_good>=0'],
]
# a stored metric handed back to the container under another name, exactly as the container holds it (no copy)
ALIAS = [('m3', 'chain_ind'), ('m3', 'chain_len_samples')]
OPS = ([('compute',) + c for c in COMPUTE] + [('add',) + a for a in ADD] + [('alias',) + a for a in ALIAS] + [('timings',)] +
       [('pick', i) for i in range(len(CONDS))] + [('chain_timings',)])
COMPARATORS = {'==': lambda a, b: a == b, '!=': lambda a, b: a != b, '<=': lambda a, b: a <= b,
               '>=': lambda a, b: a >= b, '<': lambda a, b: a < b, '>': lambda a, b: a > b}


def parse(cond):
    m = re.match(r'^([A-Za-z_][A-Za-z_0-9]*)(==|!=|<=|>=|<|>)(.+)$', cond)
    return m.group(1), COMPARATORS[m.group(2)], float(m.group(3))


class Model:
    def __init__(self, phase):
        self.phase = phase
        self.n = len(phase)
        self.labels, self.segs = ref_partition(phase, STEP)
        self.K = len(self.segs)
        self.sig = signals_for(phase)
        self.metrics = collections.OrderedDict()
        self.metrics['is_good'] = [float(int(criteria(phase[a:b], EDGE))) for a, b in self.segs]
        self.subset = None
        self.chain = None
        self.conds = None
        # augmented sample ranges: trailing run of the previous cycle with phase above 1.5 pi
        self.aug = []
        self.aug_sure = []
        for c, (a, b) in enumerate(self.segs):
            if c == 0:
                self.aug.append(None)
                self.aug_sure.append(True)
                continue
            pa, pb = self.segs[c - 1]
            i = pb
            while i > pa and phase[i - 1] > 1.5 * np.pi:
                i -= 1
            if i == pa and not (pa > 0):
                pass
            prev = phase[pa:pb]
            mono = bool(np.all(np.diff(prev) > 0))
            firsts = np.where(prev > 1.5 * np.pi)[0]
            if i == pb:
                # no trailing sample above 1.5 pi
                self.aug.append(None)
                self.aug_sure.append(len(firsts) == 0)
            else:
                self.aug.append((i, b))
                self.aug_sure.append(mono and len(firsts) > 0 and pa + firsts[0] == i and i > pa)
        # (if the whole previous cycle is above 1.5 pi the two readings of the rule differ -> not sure)

    def values(self, key):
        if key == 'cycle_vect':
            return self.labels
        if key == 'samples':
            return np.arange(self.n)
        return self.sig[key]

    def cycle_stat(self, vals, func, mode):
        out = []
        for c, (a, b) in enumerate(self.segs):
            if mode == 'cycle':
                out.append(float(func(vals[a:b])))
            else:
                r = self.aug[c]
                out.append(float('nan') if r is None else float(func(vals[r[0]:r[1]])))
        return out

    def matching(self, conds):
        if isinstance(conds, str):
            conds = [conds]
        sel = [True] * self.K
        for c in conds:
            name, f, val = parse(c)
            col = self.metrics[name]          # KeyError if the metric does not exist
            sel = [s and bool(f(v, val)) for s, v in zip(sel, col)]
        return sel

    def apply(self, op):
        """-> exception class name or None"""
        kind = op[0]
        try:
            if kind == 'compute':
                _, name, vk, fn, mode = op
                self.metrics[name] = self.cycle_stat(self.values(vk), FUNCS[fn], mode)
            elif kind == 'add':
                _, name, what = op
                if what == 'arange':
                    self.metrics[name] = [float(i) for i in range(self.K)]
                elif what == 'alt':
                    self.metrics[name] = [(-1.0, 0.5)[i % 2] for i in range(self.K)]
                elif what == 'big':
                    self.metrics[name] = [1.6e9 + i for i in range(self.K)]
                # wrong length: rejected, nothing stored
            elif kind == 'alias':
                self.metrics[op[1]] = list(self.metrics[op[2]])
            elif kind == 'timings':
                self.metrics['start_sample'] = [float(a) for a, b in self.segs]
                self.metrics['stop_sample'] = [float(b - 1) for a, b in self.segs]
                self.metrics['duration'] = [float(b - a) for a, b in self.segs]
            elif kind == 'pick':
                conds = CONDS[op[1]]
                sel = self.matching(conds)
                self.conds = list(conds)
                self.subset = []
                k = 0
                for s in sel:
                    self.subset.append(k if s else -1)
                    k += 1 if s else 0
                self.chain = []
                cur, prev = -1, None
                for i, s in enumerate(sel):
                    if s:
                        if prev is None or prev != i - 1:
                            cur += 1
                        self.chain.append(cur)
                        prev = i
                self.metrics['chain_ind'] = [float(self.chain[s]) if s >= 0 else -1.0 for s in self.subset]
            elif kind == 'chain_timings':
                if self.conds is None:
                    raise ValueError('no subset')
                nch = (max(self.chain) + 1) if self.chain else 0
                cyc_of = [[c for c in range(self.K) if self.subset[c] >= 0 and self.chain[self.subset[c]] == k] for k in range(nch)]
                cols = {'chain_start': [], 'chain_end': [], 'chain_len_samples': [], 'chain_len_cycles': [], 'chain_position': []}
                for c in range(self.K):
                    if self.subset[c] < 0:
                        for v in cols.values():
                            v.append(-1.0)
                        continue
                    k = self.chain[self.subset[c]]
                    cs = cyc_of[k]
                    cols['chain_start'].append(float(self.segs[cs[0]][0]))
                    cols['chain_end'].append(float(self.segs[cs[-1]][1] - 1))
                    cols['chain_len_samples'].append(float(sum(self.segs[q][1] - self.segs[q][0] for q in cs)))
                    cols['chain_len_cycles'].append(float(len(cs)))
                    cols['chain_position'].append(float(cs.index(c)))
                for name in ('chain_start', 'chain_end', 'chain_len_samples', 'chain_len_cycles', 'chain_position'):
                    self.metrics[name] = cols[name]
        except Exception as e:
            return type(e).__name__
        return None

    def canon(self):
        def r(v):
            return 'nan' if v != v else float('%.12g' % v)
        return (tuple((k, tuple(r(x) for x in v)) for k, v in self.metrics.items()),
                None if self.subset is None else tuple(self.subset),
                None if self.chain is None else tuple(self.chain),
                None if self.conds is None else tuple(self.conds))

    def enabled(self, op):
        if op[0] == 'pick':
            return all(parse(c)[0] in self.metrics for c in CONDS[op[1]])
        if op[0] == 'alias':
            return op[2] in self.metrics
        return True

    def table(self, conds=None):
        rows = list(range(self.K))
        if conds is not None:
            sel = self.matching(conds)
            rows = [i for i in rows if sel[i]]
        return {k: [v[i] for i in rows] for k, v in self.metrics.items()}, rows


def real_apply(C, op, model):
    kind = op[0]
    try:
        if kind == 'compute':
            _, name, vk, fn, mode = op
            vals = model.values(vk).copy()
            C.compute_cycle_metric(name, vals, FUNCS[fn], mode=mode)
        elif kind == 'add':
            _, name, what = op
            if what == 'arange':
                C.add_cycle_metric(name, np.arange(C.ncycles).astype(float))
            elif what == 'alt':
                C.add_cycle_metric(name, np.array([(-1.0, 0.5)[i % 2] for i in range(C.ncycles)]))
            elif what == 'big':
                C.add_cycle_metric(name, 1.6e9 + np.arange(C.ncycles).astype(float))
            else:
                try:
                    C.add_cycle_metric(name, np.arange(C.ncycles + 1).astype(float))
                except ValueError:
                    pass    # rejecting loudly is fine too
        elif kind == 'alias':
            C.add_cycle_metric(op[1], C.metrics[op[2]])
        elif kind == 'timings':
            C.compute_cycle_timings()
        elif kind == 'pick':
            C.pick_cycle_subset(list(CONDS[op[1]]))
        elif kind == 'chain_timings':
            C.compute_chain_timings()
    except Exception as e:
        return type(e).__name__
    return None


def close(a, b):
    a = np.asarray(a, dtype=float).reshape(-1)
    b = np.asarray(b, dtype=float).reshape(-1)
    return a.shape == b.shape and np.allclose(a, b, rtol=1e-12, atol=1e-12, equal_nan=True)


def compare(C, model, label, d, viols, aug_metrics):
    """Compare one real container with the model."""
    names = list(C.metrics.keys())
    if names != list(model.metrics.keys()):
        viols.append(('metrics:names', '%s [%s]: stored metrics %r, model %r' % (d, label, names, list(model.metrics.keys()))))
        return
    for k in names:
        got = np.asarray(C.metrics[k], dtype=float).reshape(-1)
        if len(got) != model.K:
            viols.append(('metrics:length', '%s [%s]: metric %r has %d entries for %d cycles' % (d, label, k, len(got), model.K)))
            return
        want = np.asarray(model.metrics[k], dtype=float)
        if k in aug_metrics:
            sure = np.array(model.aug_sure, dtype=bool)
            got, want = got[sure], want[sure]
        if not close(got, want):
            kind = 'metrics:value:augmented' if k in aug_metrics else ('metrics:value:chain' if k.startswith('chain') else 'metrics:value')
            viols.append((kind, '%s [%s]: metric %r = %s, model %s' % (d, label, k, got.tolist(), want.tolist())))
            return
    sv = None if C.subset_vect is None else [int(v) for v in np.asarray(C.subset_vect).reshape(-1)]
    cv = None if C.chain_vect is None else [int(v) for v in np.asarray(C.chain_vect).reshape(-1)]
    if sv != model.subset:
        viols.append(('subset-vector', '%s [%s]: subset vector %r, model %r' % (d, label, sv, model.subset)))
    if cv != model.chain:
        viols.append(('chain-vector', '%s [%s]: chain vector %r, model %r' % (d, label, cv, model.chain)))
    mc = None if C.mask_conditions is None else list(C.mask_conditions)
    if mc != model.conds:
        viols.append(('conditions', '%s [%s]: mask_conditions %r, model %r' % (d, label, mc, model.conds)))


def observe(C, model, label, d, viols, tables=True):
    # get_matching_cycles for every condition list of the menu
    for conds in CONDS:
        try:
            want = model.matching(conds)
            wexc = None
        except KeyError:
            want, wexc = None, 'KeyError'
        try:
            got = [bool(v) for v in np.asarray(C.get_matching_cycles(list(conds))).reshape(-1)]
            gexc = None
        except Exception as e:
            got, gexc = None, type(e).__name__
        if gexc != wexc or got != want:
            viols.append(('matching', '%s [%s]: get_matching_cycles(%r) -> %r / %r, model %r / %r' % (d, label, conds, got, gexc, want, wexc)))
            return
    # ... and condition by condition (ret_separate=True): one column per condition, each the condition on its own
    for conds in CONDS:
        if len(conds) < 2:
            continue
        try:
            want = [model.matching([c]) for c in conds]
        except KeyError:
            continue
        try:
            sep = np.asarray(C.get_matching_cycles(list(conds), ret_separate=True))
            got = [[bool(v) for v in sep[:, j]] for j in range(sep.shape[1])] if sep.ndim == 2 else None
        except Exception as e:
            viols.append(('matching:separate:raise', '%s [%s]: get_matching_cycles(%r, ret_separate=True) raised %r' % (d, label, conds, e)))
            return
        if got != want:
            viols.append(('matching:separate', '%s [%s]: get_matching_cycles(%r, ret_separate=True) -> %r, each condition alone gives %r' % (d, label, conds, got, want)))
            return
    if not tables:
        return
    # the container's iterators: samples of every cycle / every selected cycle / every chain, in order
    routes = [('cycles', [list(range(a, b)) for a, b in model.segs])]
    if model.conds is not None:
        sel_cycles = [c for c in range(model.K) if model.subset[c] >= 0]        # (possibly none: an empty selection is legal)
        routes.append(('subset', [list(range(*model.segs[c])) for c in sel_cycles]))
        nch = (max(model.chain) + 1) if model.chain else 0
        routes.append(('chains', [[i for c in sel_cycles if model.chain[model.subset[c]] == k for i in range(*model.segs[c])] for k in range(nch)]))
    for through, want in routes:
        try:
            got = [[int(v) for v in np.asarray(inds).reshape(-1)] for _, inds in C.iterate(through=through)]
        except Exception as e:
            viols.append(('iterate:raise:%s' % type(e).__name__, '%s [%s]: iterate(through=%r) raised %r' % (d, label, through, e)))
            return
        if got != want:
            viols.append(('iterate:%s' % through, '%s [%s]: iterate(through=%r) yields %s, model %s' % (d, label, through, got[:4], want[:4])))
            return
    # tabular exports
    for what in ('all', 'subset', 'conditions'):
        try:
            if what == 'all':
                df = C.get_metric_dataframe()
                want, rows = model.table()
            elif what == 'subset':
                df = C.get_metric_dataframe(subset=True)
                want, rows = model.table(model.conds)
            else:
                usable = [c for c in CONDS if all(parse(x)[0] in model.metrics for x in c)]
                conds = usable[len(model.metrics) % len(usable)]
                df = C.get_metric_dataframe(conditions=list(conds))
                want, rows = model.table(conds)
        except Exception as e:
            viols.append(('table:raise:%s' % type(e).__name__, '%s [%s]: %s table raised %r' % (d, label, what, e)))
            return
        cols = [c for c in df.columns if c != 'index']
        if cols != list(want.keys()) or len(df) != len(rows):
            viols.append(('table:shape', '%s [%s]: %s table has columns %r x %d rows, model %r x %d' % (d, label, what, cols, len(df), list(want.keys()), len(rows))))
            return
        for k in cols:
            if not close(df[k].to_numpy(), want[k]):
                viols.append(('table:value', '%s [%s]: %s table column %r = %s, model %s' % (d, label, what, k, df[k].to_numpy().tolist(), want[k])))
                return
        if 'index' in df.columns and [int(v) for v in df['index']] != rows:
            viols.append(('table:rows', '%s [%s]: %s table holds cycles %s, model %s' % (d, label, what, [int(v) for v in df['index']], rows)))
            return


def transition(root, hist):
    from emd.cycles import Cycles
    name, seed = root
    ctor = {}
    if name.endswith('+mode-augmented'):
        # the constructor's `mode` keyword given: stored metrics are still the function of each cycle's own samples
        name = name[:-len('+mode-augmented')]
        ctor = {'mode': 'augmented'}
    phase = phases(seed)[name]
    model = Model(phase)
    d = 'container %r%s history %s' % (name, ' built with mode=augmented' if ctor else '', [fmt(o) for o in hist])
    viols = []
    try:
        real = {'cache-on': Cycles(phase.copy(), use_cache=True, **ctor), 'cache-off': Cycles(phase.copy(), use_cache=False, **ctor)}
    except Exception as e:
        return history.Step(None, [('construct:raise:%s' % type(e).__name__, '%s: constructor raised %r' % (d, e))])
    aug_metrics = set()
    for op in hist[:-1]:
        model.apply(op)
        if op[0] == 'compute':
            (aug_metrics.add if op[4] == 'augmented' else aug_metrics.discard)(op[1])
        elif (op[0] == 'add' and op[2] != 'wrong-length') or op[0] == 'alias':
            aug_metrics.discard(op[1])
        for C in real.values():
            real_apply(C, op, model)
            # the queries of the observation menu are part of every history step (a container may keep state
            # between queries); their answers were judged when this prefix was itself the history under test
            observe(C, model, '', d, [], tables=False)
    op = hist[-1]
    before = model.canon()
    mexc = model.apply(op)
    if op[0] == 'compute':
        (aug_metrics.add if op[4] == 'augmented' else aug_metrics.discard)(op[1])
    elif (op[0] == 'add' and op[2] != 'wrong-length') or op[0] == 'alias':
        aug_metrics.discard(op[1])
    for label, C in real.items():
        rexc = real_apply(C, op, model)
        if rexc != mexc:
            k = 'op:%s:raised' % op[0] if rexc else 'op:%s:no-error' % op[0]
            if op[0] == 'pick' and rexc and not any(model.matching(CONDS[op[1]])):
                k += ':empty-selection'
            viols.append((k, '%s [%s]: %s raised %r, model %r' % (d, label, fmt(op), rexc, mexc)))
    if not viols:
        for label, C in real.items():
            compare(C, model, label, d, viols, aug_metrics)
    if not viols:
        # cache on vs cache off, every metric, every cycle (including the ones the model does not judge)
        a, b = real['cache-on'], real['cache-off']
        for k in a.metrics:
            if not close(a.metrics[k], b.metrics[k]):
                viols.append(('cache-changes-result', '%s: metric %r is %s with the cache and %s without' % (
                    d, k, np.asarray(a.metrics[k], dtype=float).tolist(), np.asarray(b.metrics[k], dtype=float).tolist())))
                break
    if not viols:
        for label, C in real.items():
            observe(C, model, label, d, viols)
    key = None if viols else model.canon()
    changed = (not viols) and key != before
    return history.Step(key, viols, transitions=2, nontrivial=changed, cls='changed' if changed else ('unchanged' if not viols else 'violation'))


def ops_for(root, hist):
    model = Model(phases(root[1])[root[0].split('+')[0]])
    for op in hist:
        model.apply(op)
    return [op for op in OPS if model.enabled(op)]


def fmt(op):
    if op[0] == 'pick':
        return 'pick(%r)' % (CONDS[op[1]],)
    return '%s(%s)' % (op[0], ', '.join(str(x) for x in op[1:]))


SMALL_OPS = [OPS[0], OPS[3], OPS[5], ('add', 'm2', 'alt'), ('add', 'm1', 'big'), ('alias', 'm3', 'chain_ind'), ('timings',), ('pick', 0), ('pick', 3),
             ('pick', 5), ('pick', 7), ('pick', 8), ('pick', 10), ('pick', 12), ('chain_timings',)]


def bounds(tier):
    if tier == 'quick':
        return {'depth_full': 3, 'depth_small': 4, 'containers': 7}
    return {'depth_full': 4, 'depth_small': 7, 'containers': 7}


def run(ctx):
    b = bounds(ctx.tier)
    roots = [(name, ctx.seed) for name in phases(ctx.seed) if name != 'long-cycles']
    rep = history.bfs(roots, OPS, transition, b['depth_full'], dedup=True, timeout_s=TIMEOUT, serial=ctx.serial, ops_for=ops_for)
    rep0 = history.bfs([('long-cycles', ctx.seed), ('noisy+mode-augmented', ctx.seed)], OPS, transition, 2, dedup=True, timeout_s=TIMEOUT, serial=ctx.serial, ops_for=ops_for)
    rep.merge(rep0)
    rep.extra['distinct_states'] = rep.extra.get('distinct_states', 0)

    def small_ops_for(root, hist):
        return [op for op in ops_for(root, hist) if op in SMALL_OPS]
    rep2 = history.bfs(roots, SMALL_OPS, transition, b['depth_small'], dedup=True, timeout_s=TIMEOUT, serial=ctx.serial,
                       ops_for=small_ops_for)
    ctx.coverage_extra['states'] = rep.extra['distinct_states'] + rep2.extra['distinct_states']
    ctx.coverage_extra['bfs_full_alphabet'] = {'ops': len(OPS), 'depth': rep.extra['max_depth'], 'per_depth': rep.extra['per_depth'],
                                               'fixpoint': rep.extra['fixpoint']}
    ctx.coverage_extra['bfs_small_alphabet'] = {'ops': len(SMALL_OPS), 'depth': rep2.extra['max_depth'], 'per_depth': rep2.extra['per_depth'],
                                                'fixpoint': rep2.extra['fixpoint']}
    ctx.coverage_extra['exhaustive'] = True
    rep.merge(rep2)
    for k in ('per_depth', 'max_depth', 'distinct_states', 'fixpoint'):
        rep.extra.pop(k, None)
    return rep


def check_case(case):
    root, hist = case
    root = tuple(root)
    hist = tuple(tuple(o) for o in hist)
    viols = []
    for n in range(1, len(hist) + 1):
        viols.extend(transition(root, hist[:n]).viols)
    return Outcome(cls='history', viols=viols)


def decode_case(c):
    return c


def nonvacuity(rep, ctx):
    if rep.classes.get('changed', 0) == 0:
        return ['vacuous: outcome classes %r' % dict(rep.classes)]
    return []
