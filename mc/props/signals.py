"""Common signal families for the sift checks (C01-C05, C19).

F_A : every sequence of length lmin..lmax over a k-level alphabet (levels instantiated from a preset chosen by seed)
F_B : a finite grid of longer structured signals, enumerated completely
"""
import itertools
import numpy as np

from ..engine import enum

LEVEL_PRESETS4 = [
    (0.0, 1.0, 2.0, 3.0),
    (-1.3, 0.4, 1.7, 2.9),
    (0.11, 0.52, 0.93, 2.34),
    (-2.0, -0.7, 0.6, 3.1),
]
LEVEL_PRESETS3 = [
    (0.0, 1.0, 2.0),
    (-1.0, 0.5, 3.25),
    (0.1, 0.2, 0.7),
    (-2.5, -1.0, 4.0),
]


def levels(k, seed):
    return (LEVEL_PRESETS4 if k == 4 else LEVEL_PRESETS3)[seed % 4]


def fa_indices(k, lmin, lmax):
    return enum.sequences(range(k), lmin, lmax)


def fa_signal(idx, k, seed):
    lv = np.array(levels(k, seed), dtype=float)
    return lv[list(idx)]


_NOISE_TABLE = None


def noise_table(seed):
    """8 fixed pseudo-random records (the only seeded data; auxiliary)."""
    rs = np.random.RandomState(1000 + seed)
    return rs.randn(8, 256)


def fb_names(sizes=(32, 64, 200)):
    names = []
    for N in sizes:
        for tones in (1, 2, 3):
            for trend in ('none', 'lin', 'quad'):
                for mod in ('none', 'am', 'fm'):
                    names.append(('tone', N, tones, trend, mod))
        for kind in ('int', 'plateau'):
            for tones in (1, 2):
                names.append((kind, N, tones, 'none', 'none'))
    for i in range(8):
        names.append(('noise' if i < 4 else 'walk', 100 if i % 2 else 64, i, 'none', 'none'))
    return names


def fb_signal(name, seed):
    kind, N, tones, trend, mod = name
    t = np.arange(N) / N
    if kind in ('noise', 'walk'):
        x = noise_table(seed)[tones, :N]
        return np.cumsum(x) if kind == 'walk' else x.copy()
    freqs = (7.3, 2.9, 1.1)[:tones]
    x = np.zeros(N)
    for j, f in enumerate(freqs):
        a = 1.0 / (j + 1)
        ph = 2 * np.pi * f * t + 0.4 * j
        if mod == 'fm':
            ph = ph + 0.8 * np.sin(2 * np.pi * 0.9 * t)
        c = a * np.cos(ph)
        if mod == 'am':
            c = c * (1 + 0.5 * np.sin(2 * np.pi * 1.3 * t + j))
        x = x + c
    if trend == 'lin':
        x = x + 1.5 * t
    elif trend == 'quad':
        x = x + 2.0 * (t - 0.3) ** 2
    if kind == 'int':
        x = np.round(3 * x)
    elif kind == 'plateau':
        x = np.clip(x, -0.5, 0.6)
    return x


def strict_extrema(x):
    """Own three-line finder: interior strict local maxima / minima indices."""
    x = np.asarray(x, dtype=float).reshape(-1)
    mx = [i for i in range(1, len(x) - 1) if x[i - 1] < x[i] > x[i + 1]]
    mn = [i for i in range(1, len(x) - 1) if x[i - 1] > x[i] < x[i + 1]]
    return mx, mn
