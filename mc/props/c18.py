"""C18 - sift configurations are faithful, addressable and persistable.

 defaults (explorer I): each variant called bare, with **get_config(name), and through get_config(name).get_func()
 key paths + persistence (explorer H): BFS over edit histories {set(path, value), del(path)} on a real SiftConfig vs a
 plain nested dict driven by native nested indexing; after every transition the whole mapping interface, both YAML
 routes, and (for states made of valid values only) the behaviour of the reloaded callable are compared.
"""
import copy
import os
import tempfile
import numpy as np

from ..engine.explore import Outcome, Report, OUT
from ..engine import history, forkpool, guard
from . import signals

PID = 'C18'
TIMEOUT = 60.0
RULE = ('defaults: 4 variants x 3 routes x signals; histories: every sequence of set/del operations up to the depth bound '
        'over 10 key paths x 7 values from every variant\'s default configuration (canonical-state deduplication); YAML '
        'round trips on every newly reached state; non-trivial = the history changed the configuration')
ASSUMPTIONS = ['the canonical state is the normalised nested store plus the sift type - the only fields SiftConfig reads - so '
               'equal canonical states have equal futures',
               'tuples / arrays are compared as lists (the YAML routes may convert them, as the property allows)',
               'behavioural comparison of the reloaded callable only for histories made of values valid for the variant']

VARIANTS = ('sift', 'ensemble_sift', 'complete_ensemble_sift', 'mask_sift')
PATHS = ('max_imfs', 'sift_thresh', 'imf_opts/sd_thresh', 'envelope_opts/interp_method',
         'extrema_opts/mag_pad_opts/stat_length', 'extrema_opts/loc_pad_opts/reflect_type',
         'newkey', 'imf_opts/newkey', 'extrema_opts/mag_pad_opts/newkey', 'a/b/c/d',
         'extrema_opts/mag_pad_opts', 'imf_opts')
VALUES = (3, 0.25, None, 'pchip', [1, 2], (0.1, 0.5, 0.1), 'ARRAY', 'DICT', 1e-24, 'NESTED')   # 1e-24: a legitimate tiny threshold
VALID = {('max_imfs', 3), ('sift_thresh', 0.25), ('imf_opts/sd_thresh', 0.25), ('envelope_opts/interp_method', 'pchip'),
         ('extrema_opts/mag_pad_opts/stat_length', 3)}
SMALL_VALUES = (3, None, (0.1, 0.5, 0.1), 'DICT')


def value_of(v):
    if isinstance(v, str) and v == 'ARRAY':
        return np.array([.3, .1])
    if isinstance(v, str) and v == 'NESTED':
        return ((2, 1),)              # a tuple inside a tuple: numpy.pad's per-axis form of stat_length / constant_values
    if isinstance(v, str) and v == 'DICT':
        return {'mode': 'edge'}       # a dictionary written over an entry (which may itself be a dictionary)
    return copy.deepcopy(v)


def ops_full():
    ops = []
    for p in PATHS:
        if p == 'a/b/c/d':
            ops.append(('set', p, 3))
        else:
            for v in VALUES:
                ops.append(('set', p, v))
            if '/' in p:
                # the same edit through nested indexing on the real object: config['a']['b'] = v
                for v in SMALL_VALUES:
                    ops.append(('nset', p, v))
                ops.append(('ndel', p, None))
        ops.append(('del', p, None))
    # the mapping's bulk write (`update`) with key paths is the same write
    for p in ('imf_opts/sd_thresh', 'extrema_opts/mag_pad_opts/stat_length', 'imf_opts/newkey', 'max_imfs'):
        for v in (3, 'DICT'):
            ops.append(('update', p, v))
    # a whole group written back with an equal-valued copy of itself (cfg[g] = dict(cfg[g])): changes nothing visible
    for p in ('imf_opts', 'extrema_opts/mag_pad_opts'):
        ops.append(('set', p, 'SAME'))
    return ops


def ops_small():
    ops = []
    for p in PATHS:
        for v in (SMALL_VALUES if p != 'a/b/c/d' else (3,)):
            ops.append(('set', p, v))
        if '/' in p and p != 'a/b/c/d':
            ops.append(('nset', p, 3))
        ops.append(('del', p, None))
    ops.append(('set', 'imf_opts', 'SAME'))
    return ops


def real_apply(cfg, op):
    kind, path, v = op
    if kind == 'set' and isinstance(v, str) and v == 'SAME':
        cfg[path] = copy.deepcopy(cfg[path])
    elif kind == 'set':
        cfg[path] = value_of(v)
    elif kind == 'update':
        cfg.update({path: value_of(v)})
    elif kind == 'del':
        del cfg[path]
    else:
        comps = path.split('/')
        d = cfg
        for c in comps[:-1]:
            d = d[c]
        if kind == 'nset':
            d[comps[-1]] = value_of(v)
        else:
            del d[comps[-1]]


def bounds(tier):
    if tier == 'quick':
        return {'depth_full': 2, 'full_variants': ('sift', 'mask_sift'), 'depth_small': 3, 'small_variants': ('ensemble_sift',), 'signals': 2}
    # 147 operations in the full alphabet: depth 3 = 3.2 M histories per variant, affordable for one variant only
    return {'depth_full': 2, 'full_variants': VARIANTS, 'depth_small': 3, 'small_variants': VARIANTS, 'signals': 4,
            'deep_variant': 'sift', 'deep_depth': 3}


def norm(v):
    if isinstance(v, dict):
        return {k: norm(x) for k, x in v.items()}
    if isinstance(v, (list, tuple)):
        return [norm(x) for x in v]
    if isinstance(v, np.ndarray):
        return norm(v.tolist())
    return v


def canon(v):
    if isinstance(v, dict):
        return tuple((k, canon(x)) for k, x in v.items())
    if isinstance(v, (list, tuple)):
        return ('L',) + tuple(canon(x) for x in v)
    if isinstance(v, np.ndarray):
        return canon(v.tolist())
    return v


def excname(e):
    """Indexing into something that is not a dictionary fails with TypeError / IndexError / ValueError depending on whether
    the value is a scalar, a list or an array - and saving a config turns arrays and tuples into lists - so these three
    are one class here; KeyError (missing entry) stays distinct."""
    n = type(e).__name__
    return 'NotIndexable' if n in ('TypeError', 'IndexError', 'ValueError') else n


def model_apply(model, op):
    """Native nested indexing on a plain dict.  Returns exception class name or None."""
    kind, path, v = op
    comps = path.split('/')
    try:
        if len(comps) > 3:
            raise ValueError('too deep')
        d = model
        for c in comps[:-1]:
            d = d[c]
        if kind == 'set' and isinstance(v, str) and v == 'SAME':
            d[comps[-1]] = copy.deepcopy(d[comps[-1]])
        elif kind in ('set', 'nset', 'update'):
            d[comps[-1]] = value_of(v)
        else:
            del d[comps[-1]]
    except Exception as e:
        return excname(e)
    return None


def model_get(model, path):
    comps = path.split('/')
    try:
        if len(comps) > 3:
            raise ValueError('too deep')
        d = model
        for c in comps:
            d = d[c]
        return ('ok', norm(d))
    except Exception as e:
        return ('exc', excname(e))


def real_get(cfg, path):
    try:
        return ('ok', norm(cfg[path]))
    except Exception as e:
        return ('exc', excname(e))


_pristine = {}


def pristine(variant):
    """Default configuration as first seen by this process tree (taken before any edit is made)."""
    if variant not in _pristine:
        import emd.sift as S
        _pristine[variant] = plain(S.get_config(variant))
    return _pristine[variant]


def base(variant):
    return variant.split('+')[0]


PRESET = {'max_imfs': 3, 'mask_amp_mode': 'ratio_sig', 'mask_amp': np.array([1.0, 0.5, 0.75, 1.0, 1.0, 1.0, 1.0, 1.0, 1.0]),
          'mask_freqs': np.array([0.3, 0.12, 0.05, 0.02, 0.01, 0.005, 0.002, 0.001, 0.0005])}


def fresh(variant):
    """A fresh default configuration; the root 'mask_sift+arrays' starts from a non-initial state instead: a masked
    sift configured with array-valued mask options (the way a user stores per-IMF amplitudes and frequencies)."""
    import emd.sift as S
    pristine(base(variant))
    cfg = S.get_config(base(variant))
    if variant.endswith('+arrays'):
        for k, v in PRESET.items():
            cfg[k] = copy.deepcopy(v)
    model = {}
    for k in cfg:
        model[k] = copy.deepcopy(cfg[k])
    return cfg, model


USE_VARIANTS = ('sift', 'mask_sift')


def usable(model):
    """False for states whose location-padding options differ from the default odd reflection: the padding loop of
    the extrema stage does not end for them (an even reflection never reaches beyond the edges), so a call would only
    run into the watchdog."""
    e = model.get('extrema_opts')
    if isinstance(e, dict) and 'loc_pad_opts' in e:
        if norm(e['loc_pad_opts']) != {'mode': 'reflect', 'reflect_type': 'odd'}:
            return False
    i = model.get('imf_opts')
    if isinstance(i, dict) and isinstance(i.get('sd_thresh'), float) and i['sd_thresh'] < 1e-12:
        return False        # a threshold of 1e-24 is legitimate but runs every extraction to the iteration limit (~0.5 s a call)
    return True


def use(cfg, variant, seed, model):
    """Drive the variant with the configuration itself (unpacked, and through its callable); errors from invalid option
    values are the library's business and are ignored here - what matters is that USING a configuration does not change it."""
    if base(variant) not in USE_VARIANTS or not usable(model):
        return 0
    x = the_signal(0, seed)
    n = 0
    try:
        with forkpool.installed(forkpool.SerialMP()), guard.watchdog(5):
            call_variant(base(variant), x, **cfg)
            n += 1
            np.random.seed(9)
            cfg.get_func()(x.copy())
            n += 1
    except guard.CaseTimeout:
        pass
    except Exception:
        pass
    return n


def plain(cfg):
    """The configuration as seen through the mapping interface."""
    return {k: norm(cfg[k]) for k in cfg}


def tmpfile():
    d = os.path.join(OUT, 'tmp')
    os.makedirs(d, exist_ok=True)
    return os.path.join(d, 'c18-cfg-%d.yml' % os.getpid())


def the_signal(i, seed):
    return signals.fb_signal([('tone', 32, 2, 'lin', 'none'), ('noise', 64, 0, 'none', 'none'),
                              ('tone', 64, 3, 'none', 'am'), ('walk', 64, 4, 'none', 'none')][i], seed)


def call_variant(variant, x, **kw):
    import emd.sift as S
    np.random.seed(9)
    out = getattr(S, variant)(x.copy(), **kw)
    return np.asarray(out[0] if isinstance(out, tuple) else out)


def transition(root, hist):
    import emd.sift as S
    variant, seed = root
    cfg, model = fresh(variant)
    viols = []
    d = '%s history %s' % (variant, [fmt(o) for o in hist])
    ntrans = 1
    if len(hist) > 1:
        use(cfg, variant, seed, model)          # the fresh configuration is used (and its callable built) as well
    for op in hist[:-1]:
        model_apply(model, op)
        try:
            real_apply(cfg, op)
        except Exception:
            pass
        use(cfg, variant, seed, model)         # every state of a history is also a state in which the configuration was used
    op = hist[-1]
    before = canon(model)
    if len(hist) == 1:
        ntrans += use(cfg, variant, seed, model)
        try:
            if plain(cfg) != norm(model):
                diff = [k for k in plain(cfg) if plain(cfg).get(k) != norm(model).get(k)]
                viols.append(('changed-by-use', '%s: driving %s with the %s configuration changed its entries %r' % (
                    d, base(variant), 'initial' if '+' not in variant else 'preset', diff)))
        except Exception as e:
            viols.append(('changed-by-use:raise', '%s: reading the configuration after use raised %r' % (d, e)))
    # the file route is exercised as "save, edit, save again to the same path": first save = the state before the edit
    fn = tmpfile()
    try:
        cfg.to_yaml_file(fn)
    except Exception:
        pass
    try:
        cfg.get_func()          # a callable obtained BEFORE the edit must not pin the old options
    except Exception:
        pass
    mexc = model_apply(model, op)
    rexc = None
    try:
        real_apply(cfg, op)
    except Exception as e:
        rexc = excname(e)
    if mexc != rexc:
        viols.append(('keypath:%s:exception' % op[0], '%s: %s gave %r, nested indexing gives %r' % (d, fmt(op), rexc, mexc)))
    # observations: the whole mapping interface and every key path
    try:
        if len(cfg) != len(model) or list(cfg) != list(model):
            viols.append(('mapping:keys', '%s: keys %r vs %r' % (d, list(cfg), list(model))))
        elif plain(cfg) != norm(model):
            viols.append(('keypath:%s:store' % op[0], '%s: configuration differs from nested indexing after %s' % (d, fmt(op))))
    except Exception as e:
        viols.append(('mapping:raise', '%s: reading the configuration raised %r' % (d, e)))
    for p in PATHS:
        a, b = real_get(cfg, p), model_get(model, p)
        if a != b:
            viols.append(('keypath:get', '%s: cfg[%r] -> %r, nested indexing -> %r' % (d, p, a, b)))
            break
    # the callable built from the configuration binds exactly the current options
    try:
        f = cfg.get_func()
        bound = {k: norm(v) for k, v in f.keywords.items()}
        if bound != norm(model) or getattr(f.func, '__name__', None) != base(variant):
            viols.append(('get_func:stale', '%s: get_func() binds %r for %s, the configuration holds %r' % (
                d, sorted(set(map(str, bound.items())) ^ set(map(str, norm(model).items())))[:4], getattr(f.func, '__name__', None), '...')))
    except Exception as e:
        if not viols:
            viols.append(('get_func:raise', '%s: get_func() raised %r' % (d, e)))
    # editing one configuration object must not leak into the defaults handed out afterwards
    try:
        again = plain(S.get_config(base(variant)))
        if again != pristine(base(variant)):
            diff = [k for k in again if again[k] != pristine(base(variant)).get(k)]
            viols.append(('defaults-polluted', '%s: a fresh get_config(%r) now differs from the defaults in %r' % (d, base(variant), diff)))
            _pristine.pop(base(variant), None)
    except Exception as e:
        viols.append(('defaults-polluted:raise', '%s: get_config raised %r' % (d, e)))
    if not viols:
        # ... and using the configuration in its new state does not change it either
        ntrans += use(cfg, variant, seed, model)
        try:
            if plain(cfg) != norm(model):
                diff = [k for k in plain(cfg) if plain(cfg).get(k) != norm(model).get(k)]
                viols.append(('changed-by-use', '%s: driving %s with the configuration changed its entries %r' % (d, base(variant), diff)))
        except Exception as e:
            viols.append(('changed-by-use:raise', '%s: reading the configuration after use raised %r' % (d, e)))
    key = canon(model)
    changed = key != before
    # a group replaced by an equal copy of itself is invisible in the canonical state, but it is a different history
    # for anything that holds on to the old object: keep such histories apart so that the search extends them
    nsame = sum(1 for o in hist if isinstance(o[2], str) and o[2] == 'SAME')
    if nsame:
        key = (key, 'same-copy', min(nsame, 2))
    if not viols:
        # persistence: both YAML routes
        want = norm(model)
        for route in ('file', 'text'):
            try:
                if route == 'file':
                    cfg.to_yaml_file(fn)
                    back = S.SiftConfig.from_yaml_file(fn)
                else:
                    back = S.SiftConfig.from_yaml_stream(cfg.to_yaml_text())
                ntrans += 1
                if back.sift_type != base(variant):
                    viols.append(('yaml:%s:sift-type' % route, '%s: sift type %r after the %s round trip' % (d, back.sift_type, route)))
                elif not isinstance(back.store, dict) or plain(back) != want:
                    viols.append(('yaml:%s:options' % route, '%s: options differ after the %s round trip' % (d, route)))
            except Exception as e:
                viols.append(('yaml:%s:raise:%s' % (route, type(e).__name__), '%s: %s round trip raised %r' % (d, route, e)))
        # behaviour of the reloaded callable (valid values only)
        if not viols and len(hist) <= 2 and all(o[0] == 'set' and isinstance(o[2], (int, float, str)) and (o[1], o[2]) in VALID for o in hist):
            x = the_signal(0, seed)
            try:
                with forkpool.installed(forkpool.SerialMP()):
                    kw = copy.deepcopy(model)
                    direct = call_variant(base(variant), x, **kw)
                    np.random.seed(9)
                    reloaded = S.SiftConfig.from_yaml_file(fn).get_func()(x.copy())
                    reloaded = np.asarray(reloaded[0] if isinstance(reloaded, tuple) else reloaded)
                ntrans += 2
                if direct.shape != reloaded.shape or not np.array_equal(direct, reloaded):
                    viols.append(('yaml:behaviour', '%s: callable from the reloaded config behaves differently from the direct call' % d))
            except Exception as e:
                viols.append(('yaml:behaviour:raise', '%s: %r' % (d, e)))
    try:
        os.unlink(fn)
    except OSError:
        pass
    return history.Step(key, viols, transitions=ntrans, nontrivial=changed, cls='changed' if changed else 'unchanged')


def fmt(op):
    return '%s(%s%s)' % (op[0], op[1], '' if op[0] in ('del', 'ndel') else ', %r' % (op[2],))


def check_defaults(case):
    import emd.sift as S
    _, variant, si, seed = case
    x = the_signal(si, seed)
    viols = []
    with forkpool.installed(forkpool.SerialMP()):
        try:
            bare = call_variant(variant, x)
            cfg = S.get_config(variant)
            unpacked = call_variant(variant, x, **cfg)
            np.random.seed(9)
            part = S.get_config(variant).get_func()(x.copy())
            part = np.asarray(part[0] if isinstance(part, tuple) else part)
        except Exception as e:
            return Outcome(cls='defaults', viols=[('defaults:raise:%s' % type(e).__name__, '%s signal %d raised %r' % (variant, si, e))])
    if bare.shape != unpacked.shape or not np.array_equal(bare, unpacked):
        viols.append(('defaults:unpacked', '%s signal %d: f(x, **get_config()) differs from f(x)' % (variant, si)))
    if bare.shape != part.shape or not np.array_equal(bare, part):
        viols.append(('defaults:get_func', '%s signal %d: get_config().get_func()(x) differs from f(x)' % (variant, si)))
    return Outcome(cls='defaults', transitions=3, viols=viols, nontrivial=True)


def check_case(case):
    """Replay entry point: case = (root, history) from the BFS or ('defaults', ...)."""
    if case[0] == 'defaults':
        return check_defaults(case)
    root, hist = case
    root = tuple(root)
    hist = tuple((o[0], o[1], tuple(o[2]) if isinstance(o[2], list) and o[2] == [0.1, 0.5, 0.1] else o[2]) for o in hist)
    viols = []
    for n in range(1, len(hist) + 1):
        viols.extend(transition(root, hist[:n]).viols)
    return Outcome(cls='history', viols=viols)


def run(ctx):
    b = bounds(ctx.tier)
    for v in VARIANTS:
        pristine(v)
    rep = Report()
    # defaults
    from ..engine import explore
    dcases = [('defaults', v, si, ctx.seed) for v in VARIANTS for si in range(b['signals'])]
    rep.merge(ctx.explore(lambda: dcases, check_defaults, timeout_s=TIMEOUT))
    roots = [(v, ctx.seed) for v in b['full_variants']]
    r0 = history.bfs([(v, ctx.seed) for v in VARIANTS if v not in b['full_variants']] + [('mask_sift+arrays', ctx.seed)], ops_full(),
                     transition, 1 if ctx.tier == 'quick' else 2, dedup=True, timeout_s=TIMEOUT, serial=ctx.serial)
    rep.merge(r0)
    r1 = history.bfs(roots, ops_full(), transition, b['depth_full'], dedup=True, timeout_s=TIMEOUT, serial=ctx.serial)
    r2 = history.bfs([(v, ctx.seed) for v in b['small_variants']], ops_small(), transition, b['depth_small'], dedup=True,
                     timeout_s=TIMEOUT, serial=ctx.serial)
    for r in (r1, r2):
        rep.merge(r)
    if b.get('deep_variant'):
        r3 = history.bfs([(b['deep_variant'], ctx.seed)], ops_full(), transition, b['deep_depth'], dedup=True, timeout_s=TIMEOUT,
                         serial=ctx.serial)
        rep.merge(r3)
        ctx.coverage_extra['bfs_full_deep'] = {'variant': b['deep_variant'], 'depth': r3.extra['max_depth'], 'per_depth': r3.extra['per_depth']}
        r1.evaluations += r3.evaluations
        r1.extra['distinct_states'] += r3.extra['distinct_states']
    rep.evaluations = r0.evaluations + r1.evaluations + r2.evaluations + len(dcases)
    ctx.coverage_extra['states'] = r0.extra['distinct_states'] + r1.extra['distinct_states'] + r2.extra['distinct_states']
    ctx.coverage_extra['bfs_full'] = {'depth': r1.extra['max_depth'], 'per_depth': r1.extra['per_depth'], 'ops': len(ops_full())}
    ctx.coverage_extra['bfs_small'] = {'depth': r2.extra['max_depth'], 'per_depth': r2.extra['per_depth'], 'ops': len(ops_small())}
    d = os.path.join(OUT, 'tmp')
    for fn in os.listdir(d):
        if fn.startswith('c18-cfg-'):
            try:
                os.unlink(os.path.join(d, fn))
            except OSError:
                pass
    return rep


def decode_case(c):
    return c


def nonvacuity(rep, ctx):
    if not {'defaults', 'changed', 'unchanged'} <= set(rep.classes):
        return ['vacuous: outcome classes %r' % dict(rep.classes)]
    return []
