"""C07 - masked sift applies the documented masks, removes them, and is schedule independent.

Explorer I : signals x {frequency source} x {amplitude mode} x {scalar / per-IMF amplitude} x step factor x nphases x cap
             against an executable specification of the masking rule (single-IMF extraction is the stage function).
Explorer S : get_next_imf_mask and mask_sift under the controlled fork pool, EVERY chunk->worker assignment for
             nphases x nprocesses; every schedule must reproduce the serial result bit-for-bit.
"""
import functools
import itertools
import numpy as np

from ..engine.explore import Outcome, Holder

_holder = Holder()
from ..engine import forkpool, enum, guard
from . import signals

PID = 'C07'
TIMEOUT = 120.0
RULE = ('spec: each signal runs every k-th point of the 4536-point mask configuration grid (x 4 option sets rotating with the grid index) with a rotating offset '
        '(union over signals covers the grid); single: get_next_imf_mask over a frequency x amplitude x nphases grid; '
        'sched: every canonical chunk->worker assignment per (nphases, nprocesses) incl. chunks of several jobs; '
        'reuse: every sequence of d in-place edits (8-edit alphabet) of one caller-owned set of option dictionaries with a masked '
        'sift after each edit, serial and on 2 workers; non-trivial = result has >= 2 IMFs '
        '(spec) / schedule uses >= 2 workers (sched) / two different edits (reuse)')
ASSUMPTIONS = ['the specification uses emd.sift.get_next_imf (captured before interposition) as its stage function, and '
               'emd.spectra.frequency_transform for the instantaneous-frequency source',
               'configurations for which the specification itself cannot be evaluated (too-short signal for the frequency '
               'source) are counted as skipped, not judged',
               'layers whose signal-plus-mask is flat up to rounding noise (non-zero neighbour differences below 1e-9 of the '
               'amplitude) are a guard band: counted, not judged',
               'Pool.starmap chunking follows CPython; workers share no memory']

SOURCES = ('zc', 'if', 0.3, 0.12, 'list3', 'list1', 'list3u')
MODES = ('abs', 'ratio_sig', 'ratio_imf')
AMPKIND = ('scalar', 'array', 'zero')
OPTSETS = (None,
           {'envelope_opts': {'interp_method': 'mono_pchip'}},
           {'extrema_opts': {'parabolic_extrema': True, 'pad_width': 3}},
           {'imf_opts': {'stop_method': 'fixed', 'max_iters': 2}, 'extrema_opts': {'pad_width': 1}})
STEPS = (2, 3, 1.5)
NPH = (1, 2, 3, 4, 5, 6, 7, 8)
CAPS = (1, 3, 9)
GRID = list(itertools.product(SOURCES, MODES, AMPKIND, STEPS, NPH, CAPS))
LIST3 = (0.3, 0.11, 0.04)
LIST1 = (0.2,)
LIST3U = (0.04, 0.3, 0.11)      # the user's list in the user's order (not monotone)
AMPARRAY = (1.0, 0.0, 2.0, 0.75, 0.0, 0.25, 1.25, 0.6, 0.9)    # per-IMF amplitudes, two layers with a zero mask

_orig = {}


def capture():
    import emd.sift as S
    if 'gni' not in _orig:
        _orig['gni'] = S.get_next_imf
        _orig['gnim'] = S.get_next_imf_mask
        _orig['mask_sift'] = S.mask_sift


def bounds(tier):
    if tier == 'quick':
        return {'fa_len': 5, 'fa_stride': 216, 'fb_sizes': (32,), 'fb_stride': 16, 'nph': 5, 'P': 3, 'sched_signals': 2, 'multi_job_chunks': '(nphases, P) in (9,2), (10,2)'}
    return {'fa_len': 6, 'fa_stride': 108, 'fb_sizes': (32, 64), 'fb_stride': 8, 'nph': 8, 'P': 8, 'sched_signals': 3,
            'multi_job_chunks': '(nphases, P) in (9..12,2), (16,2), (17,2), (13,3), (14,3), (17,4)'}


SCHED_SIGNALS = [('tone', 32, 2, 'lin', 'none'), ('noise', 64, 0, 'none', 'none'), ('tone', 64, 3, 'none', 'am')]


def nchunks(ntasks, P):
    cs, extra = divmod(ntasks, 4 * P)
    if extra:
        cs += 1
    return -(-ntasks // cs), cs


def cases(tier, seed):
    b = bounds(tier)
    k = 0
    for idx in signals.fa_indices(4, 3, b['fa_len']):
        k += 1
        for gi in range(k % b['fa_stride'], len(GRID), b['fa_stride']):
            yield ('spec', 'fa', idx, gi, seed)
    for name in signals.fb_names(b['fb_sizes']):
        k += 1
        for gi in range(k % b['fb_stride'], len(GRID), b['fb_stride']):
            yield ('spec', 'fb', name, gi, seed)
        for zi in range(6):
            yield ('single', 'fb', name, zi, seed)
    # larger scope: records beyond a few thousand samples whose character changes late (frequency sources must see
    # the whole record), more than 8 phases; and integer / float32 typed copies of short records
    for name in (('late-burst', 4096), ('chirp', 3000)):
        for gi in (0, 1, 2, 3):
            yield ('spec-long', 'gen', name, gi, seed)
    for idx in signals.fa_indices(4, 5, 5):
        k += 1
        if k % 4 == 0:
            yield ('spec', 'fa-int', idx, (k * 37) % len(GRID), seed)
    for name in signals.fb_names((32,))[:12]:
        k += 1
        yield ('spec', 'fb-f32', name, (k * 53) % len(GRID), seed)
    for c in reuse_cases(tier, seed):
        yield c
    for si in range(b['sched_signals']):
        for nph in range(1, b['nph'] + 1):
            seen = set()
            for P in range(1, b['P'] + 1):
                C, cs = nchunks(nph, P)
                first = True
                for rgs in enum.restricted_growth_strings(C, P):
                    if (cs, rgs) in seen and not first:
                        continue
                    first = False
                    seen.add((cs, rgs))
                    yield ('sched1', 'fb', SCHED_SIGNALS[si], (nph, P, rgs), seed)
        # chunks holding several jobs on more than one worker (needs nphases > 4 * nprocesses)
        multi = ((9, 2), (10, 2)) if tier == 'quick' else ((9, 2), (10, 2), (11, 2), (12, 2), (16, 2), (17, 2), (13, 3), (14, 3), (17, 4))
        for nph, P in multi if si == 0 or tier != 'quick' else ():
            if P >= 4 and si > 0:
                continue
            C, cs = nchunks(nph, P)
            for rgs in enum.restricted_growth_strings(C, P):
                yield ('sched1', 'fb', SCHED_SIGNALS[si], (nph, P, rgs), seed)
        # two pools in one mask_sift call: product of the per-pool schedule spaces
        for nph, P in ((2, 2), (3, 2), (4, 2), (3, 3)) if tier == 'quick' else ((2, 2), (3, 2), (4, 2), (3, 3), (4, 3), (5, 2), (4, 4)):
            C, cs = nchunks(nph, P)
            for r1 in enum.restricted_growth_strings(C, P):
                for r2 in enum.restricted_growth_strings(C, P):
                    yield ('sched2', 'fb', SCHED_SIGNALS[si], (nph, P, r1, r2), seed)


# in-place edits of the option dictionaries handed to successive calls (the caller keeps and edits its own objects)
EDITS = (('imf_opts', 'sd_thresh', 0.3), ('imf_opts', 'env_step_size', 0.5), ('envelope_opts', 'interp_method', 'mono_pchip'),
         ('extrema_opts', 'pad_width', 1), ('extrema_opts', 'parabolic_extrema', True), ('imf_opts', None, None),
         ('envelope_opts', None, None), ('extrema_opts', None, None))


def reuse_cases(tier, seed):
    depth = 2 if tier == 'quick' else 3
    sigs = SCHED_SIGNALS[:1] if tier == 'quick' else SCHED_SIGNALS[:2]
    for name in sigs:
        for P in (1, 2):
            for seq in itertools.product(range(len(EDITS)), repeat=depth):
                yield ('reuse', 'fb', name, (seq, P), seed)


def check_reuse(case):
    """One caller-owned set of option dictionaries, edited in place between successive masked sifts in one process:
    every call must follow the masking rule under the options the dictionaries hold at that moment."""
    import copy
    x = signal_of(case)
    seq, P = case[3]
    live = {'imf_opts': {}, 'envelope_opts': {}, 'extrema_opts': {}}
    viols = []
    trans = 0
    sched = [[i % P for i in range(64)] for _ in range(16)]
    with forkpool.installed(forkpool.ControlledMP(sched) if P > 1 else forkpool.SerialMP()):
        for step_i, ei in enumerate((None,) + tuple(seq)):
            if ei is not None:
                grp, key, val = EDITS[ei]
                if key is None:
                    live[grp].clear()
                else:
                    live[grp][key] = val
            now = copy.deepcopy(live)
            tag = 'reuse F_B%r nprocesses=%d edits=%s call#%d options now %r' % (case[2], P, [EDITS[i] for i in seq[:step_i]], step_i, now)
            try:
                got = np.asarray(_orig['mask_sift'](x.copy(), mask_freqs=0.12, mask_amp=0.8, mask_amp_mode='ratio_sig', nphases=4,
                                                    max_imfs=2, nprocesses=P, imf_opts=live['imf_opts'],
                                                    envelope_opts=live['envelope_opts'], extrema_opts=live['extrema_opts']))
            except forkpool.HarnessError:
                raise
            except Exception as e:
                viols.append(('reuse:raise:%s' % type(e).__name__, '%s raised %r' % (tag, e)))
                break
            trans += 1
            if live != now:
                viols.append(('reuse:options-modified', '%s: the option dictionaries were changed by the call: %r' % (tag, live)))
                break
            with np.errstate(all='ignore'):
                bad, n, wfreq = spec_compare(x, got, 0.12, 'ratio_sig', 'scalar', 2, 4, 2, opts=now)
            if bad and bad[0] == 'GUARD':
                break
            if bad:
                viols.append(('reuse:%s' % bad[0].split(':')[0], '%s: %s' % (tag, bad[1])))
                break
    return Outcome(cls='reuse:P=%d' % P, transitions=trans, viols=viols, nontrivial=len(set(seq)) > 1)


def decode_case(c):
    def tup(x):
        return tuple(tup(v) for v in x) if isinstance(x, list) else x
    return tup(c)


def signal_of(case):
    if case[1] == 'fa':
        return signals.fa_signal(case[2], 4, case[4])
    if case[1] == 'fa-int':
        return np.array(case[2], dtype=float)
    if case[1] == 'gen':
        kind, n = case[2]
        t = np.arange(n) / n
        if kind == 'late-burst':
            x = np.cos(2 * np.pi * 20 * t) + 0.5 * t
            x[int(0.7 * n):] += 0.8 * np.cos(2 * np.pi * 400 * t[int(0.7 * n):])
            return x
        return np.cos(2 * np.pi * (30 * t + 200 * t ** 2)) + 0.3 * np.cos(2 * np.pi * 7 * t)
    return signals.fb_signal(case[2], case[4])


def typed_input(case, x):
    """The array as handed to the library: integer- or float32-typed copies for the dtype families."""
    if case[1] == 'fa-int':
        return x.astype(np.int64 if case[4] % 2 == 0 else np.int32)
    if case[1] == 'fb-f32':
        return x.astype(np.float32)
    return x.copy()


def spec_mask_imf(r, z, amp, nph, opts=None):
    """One masked IMF from the statement: mean over phases of extraction(signal + mask) - mask."""
    gni = _orig['gni']
    N = r.shape[0]
    t = np.arange(N)
    acc = np.zeros((N, 1))
    flags = []
    for p in range(nph):
        m = (amp * np.cos(2 * np.pi * z * t + 2 * np.pi * p / nph))[:, None]
        o = opts or {}
        imf, flag = gni(r + m, envelope_opts=o.get('envelope_opts'), extrema_opts=o.get('extrema_opts'), **(o.get('imf_opts') or {}))
        acc += imf - m
        flags.append(flag)
    return acc / nph, any(flags)


def spec_first_freq(X, source, opts=None):
    if source in ('zc', 'if'):
        imf, _ = _orig['gni'](X, **((opts or {}).get('imf_opts') or {}))
        if source == 'zc':
            nz = int((np.diff(np.sign(imf[:, 0])) != 0).sum())
            return nz / imf.shape[0] / 4
        from emd.spectra import frequency_transform
        _, IF, IA = frequency_transform(imf[:, 0, None], 1, 'nht', smooth_phase=3)
        return np.average(IF, weights=IA)
    return source


def ill_conditioned(r, z, amp, nph):
    """True if, for some phase, signal + mask has non-zero neighbour differences below 1e-9 of its amplitude."""
    t = np.arange(r.shape[0])
    for p in range(nph):
        y = r[:, 0] + amp * np.cos(2 * np.pi * z * t + 2 * np.pi * p / nph)
        d = np.abs(np.diff(y))
        nz = d[d > 0]
        top = np.max(np.abs(y))
        if len(nz) and top > 0 and np.min(nz) < 1e-9 * top:
            return True
    return False


def spec_freqs(x, source, step, cap, opts=None):
    X = x[:, None].astype(float)
    if source == 'list3':
        return np.array(LIST3), min(cap, 3)
    if source == 'list1':
        return np.array(LIST1), min(cap, 1)
    if source == 'list3u':
        return np.array(LIST3U), min(cap, 3)
    z0 = spec_first_freq(X, source, opts)
    return np.array([z0 / step ** k for k in range(cap)]), cap


def spec_compare(x, got, source, mode, ampkind, step, nph, cap, sift_thresh=1e-8, opts=None, rtol=1e-10):
    """Layer-by-layer comparison with the masking rule.

    Layer k of the specification is computed from the residual built from the implementation's OWN first k columns,
    so one-ulp differences cannot be amplified from layer to layer (an unmasked layer sifts a smooth residual whose only
    extrema are rounding noise - that is inherently ill-conditioned).  Returns (problem | None, n_layers, freqs)."""
    X = x[:, None].astype(float)
    freqs, cap = spec_freqs(x, source, step, cap, opts)
    scale = rtol * (1 + np.max(np.abs(x)))
    ncols = got.shape[1]
    for k in range(ncols):
        r = X - got[:, :k].sum(axis=1)[:, None]
        if mode == 'abs':
            s = 1.0
        elif mode == 'ratio_sig' or k == 0:
            s = X.std()
        else:
            s = got[:, k - 1].std()
        a = (AMPARRAY[k] if ampkind == 'array' else (0.0 if ampkind == 'zero' else 0.8)) * s
        if a != 0 and ill_conditioned(r, freqs[k], a, nph):
            # signal-plus-mask is flat up to rounding noise (e.g. a mask frequency of ~1e-17 from a degenerate first
            # IMF): its "extrema" depend on the last bit of the mask - guard band, not judged
            return ('GUARD', ''), k, freqs
        imf, flag = spec_mask_imf(r, freqs[k], a, nph, opts)
        err = np.max(np.abs(imf[:, 0] - got[:, k]))
        if not err <= scale:
            return ('value:first-bad-col=%s%s' % ('0' if k == 0 else 'later', ':zero-amp' if a == 0 else ''),
                    'column %d differs from the masking rule (max diff %.3g)' % (k, err)), k, freqs
        stop = (not flag) or (k + 1 == cap) or np.abs(imf).sum() < sift_thresh
        if stop and k + 1 < ncols:
            return ('columns', 'the rule ends the sift after %d columns, result has %d' % (k + 1, ncols)), k, freqs
        if not stop and k + 1 == ncols:
            return ('columns', 'the rule continues after column %d but the result has only %d columns' % (k, ncols)), k, freqs
    return None, ncols, freqs


def impl_kwargs(source, mode, ampkind, step, nph, cap, opts=None):
    kw = dict(mask_amp_mode=mode, mask_step_factor=step, nphases=nph, max_imfs=cap, ret_mask_freq=True)
    import copy
    kw.update(copy.deepcopy(opts or {}))
    kw['mask_amp'] = np.array(AMPARRAY) if ampkind == 'array' else (0 if ampkind == 'zero' else 0.8)
    if source == 'list3':
        kw['mask_freqs'] = np.array(LIST3)
    elif source == 'list1':
        kw['mask_freqs'] = np.array(LIST1)
    elif source == 'list3u':
        kw['mask_freqs'] = list(LIST3U) if cap % 2 else np.array(LIST3U)
    else:
        kw['mask_freqs'] = source
    return kw


def check_case(case):
    capture()
    kind = case[0]
    if kind in ('spec', 'spec-long'):
        with forkpool.installed(forkpool.SerialMP()):
            return check_spec(case)
    if kind == 'single':
        with forkpool.installed(forkpool.SerialMP()):
            return check_single(case)
    if kind == 'reuse':
        return check_reuse(case)
    return check_sched(case)


def check_spec(case):
    from emd.support import EMDSiftCovergeError
    x = signal_of(case)
    N = len(x)
    if case[0] == 'spec-long':
        source, mode, ampkind, step, nph, cap = [('zc', 'ratio_imf', 'scalar', 2, 4, 3), ('if', 'ratio_sig', 'scalar', 2, 2, 2),
                                                  ('zc', 'abs', 'scalar', 3, 12, 2), (0.12, 'ratio_sig', 'array', 2, 9, 3)][case[3]]
        opts = None
    else:
        source, mode, ampkind, step, nph, cap = GRID[case[3]]
        opts = OPTSETS[(case[3] // 7) % len(OPTSETS)]
    if case[1] == 'fb-f32':
        x = x.astype(np.float32).astype(float)      # the values the library actually receives
    tag = 'x=%s mask_freqs=%r mode=%s amp=%s step=%g nphases=%d max_imfs=%d options=%r' % (
        x.tolist() if N <= 12 else 'F_B%r' % (case[2],), source, mode, ampkind, step, nph, cap, opts)
    viols = []
    kw = impl_kwargs(source, mode, ampkind, step, nph, cap, opts)
    kw_before = impl_kwargs(source, mode, ampkind, step, nph, cap, opts)
    try:
        got, gfreq = _orig['mask_sift'](typed_input(case, x), **kw)
        for m_ in _holder.swap((got, gfreq), 'mask_sift ' + tag):
            viols.append(('spec:earlier-result-changed', m_))
        # the same argument objects a second time: nothing handed in may have been changed by the first call
        got2, gfreq2 = _orig['mask_sift'](typed_input(case, x), **kw)
        for k_ in ('mask_amp', 'mask_freqs'):
            if isinstance(kw_before[k_], np.ndarray) and not np.array_equal(kw[k_], kw_before[k_]):
                viols.append(('spec:argument-modified', '%s: the %s array passed in was changed by the call' % (tag, k_)))
        if np.asarray(got2).shape != np.asarray(got).shape or not np.array_equal(np.asarray(got2), np.asarray(got)):
            viols.append(('spec:not-repeatable', '%s: a second identical call with the same argument objects gives another result' % tag))
    except EMDSiftCovergeError:
        return Outcome(cls='spec-skipped', nontrivial=False)
    except Exception as e:
        # only a violation if the specification itself can be evaluated for this configuration
        try:
            with np.errstate(all='ignore'):
                f_, c_ = spec_freqs(x, source, step, cap, opts)
                ok_spec = bool(np.all(np.isfinite(f_)))
                if ok_spec:
                    spec_mask_imf(x[:, None].astype(float), f_[0], 0.8, nph, opts)
        except Exception:
            ok_spec = False
        if not ok_spec:
            return Outcome(cls='spec-skipped', nontrivial=False)
        return Outcome(cls='raise', viols=[('spec:raise:%s' % type(e).__name__, '%s raised %r' % (tag, e))])
    got = np.asarray(got)
    gfreq = np.asarray(gfreq, dtype=float)
    if got.ndim != 2 or got.shape[0] != N or not np.all(np.isfinite(got)):
        return Outcome(cls='spec-skipped' if got.ndim == 2 and got.shape[0] == N else 'shape', nontrivial=False,
                       viols=[] if got.ndim == 2 and got.shape[0] == N else [('spec:shape', '%s: result shape %r' % (tag, got.shape))])
    try:
        with np.errstate(all='ignore'):
            # single-precision input: statistics of the signal (its std) are only known to float32 precision
            bad, n, wfreq = spec_compare(x, got, source, mode, ampkind, step, nph, cap, opts=opts,
                                         rtol=1e-5 if case[1] == 'fb-f32' else 1e-10)
    except EMDSiftCovergeError:
        return Outcome(cls='spec-skipped', nontrivial=False)
    if bad and bad[0] == 'GUARD':
        out = Outcome(cls='spec-guard-band', nontrivial=False, viols=viols)
        out.excluded = True
        return out
    if bad:
        viols.append(('spec:%s' % bad[0], '%s: %s' % (tag, bad[1])))
    # the public helper that determines the first mask frequency, called directly
    if source in ('zc', 'if', 0.3, 0.12) and case[0] == 'spec' and case[3] % 5 == 0:
        try:
            import emd.sift as S_
            z_ = float(S_.get_mask_freqs(x[:, None].astype(float).copy(), source, imf_opts=(opts or {}).get('imf_opts')))
            w_ = float(spec_first_freq(x[:, None].astype(float), source, opts))
            if not (abs(z_ - w_) <= 1e-9 * max(abs(w_), 1e-300) + 1e-12):
                viols.append(('spec:get_mask_freqs', '%s: get_mask_freqs gives %r, the rule %r' % (tag, z_, w_)))
        except Exception as e:
            viols.append(('spec:get_mask_freqs:raise', '%s: get_mask_freqs raised %r' % (tag, e)))
    if len(gfreq) < got.shape[1] or not np.allclose(gfreq[:len(wfreq)], wfreq[:len(gfreq)], rtol=1e-9, atol=1e-12):
        viols.append(('spec:mask-freqs', '%s: returned mask frequencies %s, rule gives %s' % (tag, gfreq.tolist(), wfreq.tolist())))
    n = got.shape[1]
    return Outcome(cls='spec:%s' % ('multi' if n >= 2 else 'single'), transitions=n * nph + 1, viols=viols, nontrivial=n >= 2)


def check_single(case):
    x = signal_of(case)
    X = x[:, None]
    z = (0.01, 0.05, 0.12, 0.2, 0.33, 0.45)[case[3]]
    tag = 'F_B%r z=%g' % (case[2], z)
    viols = []
    trans = 0
    scale = 1e-10 * (1 + np.max(np.abs(x)))
    for nph in NPH:
        for amp in (0.0, 0.3, 2.0):
            try:
                got, flag = _orig['gnim'](X.copy(), z, amp, nphases=nph)
                want, wflag = spec_mask_imf(X, z, amp, nph)
            except Exception as e:
                viols.append(('single:raise:%s' % type(e).__name__, '%s nphases=%d amp=%g raised %r' % (tag, nph, amp, e)))
                continue
            trans += 1
            got = np.asarray(got)
            if got.shape != want.shape or not np.max(np.abs(got - want)) <= scale or bool(flag) != bool(wflag):
                viols.append(('single:value', '%s nphases=%d amp=%g: masked extraction differs from the rule (max diff %s)' % (
                    tag, nph, amp, np.max(np.abs(got - want)) if got.shape == want.shape else got.shape)))
            if amp == 0.0:
                plain, pflag = _orig['gni'](X.copy())
                if not np.max(np.abs(got - plain)) <= 1e-12 * (1 + np.max(np.abs(x))):
                    viols.append(('single:zero-amp', '%s nphases=%d: zero-amplitude mask differs from unmasked extraction' % (tag, nph)))
    return Outcome(cls='single', transitions=trans, viols=viols, nontrivial=True)


_serial_cache = {}


def _digest_args(log):
    d = []
    for e in log:
        for rec in e['trace']:
            d.append(rec)
    return sorted(d)


def install_arg_seam():
    import emd.sift as S
    if 'seamed' in _orig:
        return
    capture()
    _orig['seamed'] = True
    import hashlib

    @functools.wraps(_orig['gni'])
    def gni(X, *a, **k):
        forkpool.TRACE.append(hashlib.sha1(np.ascontiguousarray(X).tobytes()).hexdigest())
        return _orig['gni'](X, *a, **k)
    S.get_next_imf = gni


def check_sched(case):
    import emd.sift as S
    install_arg_seam()
    x = signal_of(case)
    kind = case[0]
    par = case[3]
    nph, P = par[0], par[1]
    sched = [list(r) for r in par[2:]]
    tag = '%s F_B%r nphases=%d nprocesses=%d schedule=%s' % (kind, case[2], nph, P, sched)

    def body(nproc=P):
        if kind == 'sched1':
            r, f = S.get_next_imf_mask(x[:, None].copy(), 0.15, 0.6, nphases=nph, nprocesses=nproc)
            return np.asarray(r)
        return np.asarray(S.mask_sift(x.copy(), mask_freqs=0.25, mask_amp_mode='ratio_sig', nphases=nph, nprocesses=nproc, max_imfs=2))
    key = (kind, case[2], nph, case[4])
    if key not in _serial_cache:
        del forkpool.TRACE[:]
        with forkpool.installed(forkpool.SerialMP()):
            ref = body(1)     # the reference is the single-process run
        _serial_cache[key] = (ref, sorted(forkpool.TRACE))
        del forkpool.TRACE[:]
    ref, ref_args = _serial_cache[key]
    cm = forkpool.ControlledMP(sched)
    viols = []
    del forkpool.TRACE[:]
    with forkpool.installed(cm):
        try:
            got = body()
        except forkpool.HarnessError:
            raise
        except Exception as e:
            return Outcome(cls='raise', viols=[('sched:raise:%s' % type(e).__name__, '%s raised %r' % (tag, e))])
    # tasks executed in the parent (e.g. the unmasked first IMF) land in the parent's TRACE
    parent_args = list(forkpool.TRACE)
    del forkpool.TRACE[:]
    args = sorted(_digest_args(cm.log) + parent_args)
    if got.shape != ref.shape or not np.array_equal(got, ref):
        viols.append(('sched:result-depends-on-schedule', '%s: result differs from the serial result (max diff %s)' % (
            tag, np.max(np.abs(got - ref)) if got.shape == ref.shape else got.shape)))
    if args != ref_args:
        viols.append(('sched:task-arguments', '%s: the multiset of arrays handed to single-IMF extraction differs from the serial run' % tag))
    used = max(len(set(r)) for r in sched)
    return Outcome(cls='%s:%s' % (kind, 'multi-worker' if used > 1 else 'one-worker'), transitions=sum(sum(i['chunks']) for i in cm.pools),
                   viols=viols, nontrivial=used > 1)


def real_pool_conformance(tier, seed):
    """The stock pool must give the serial result too (it is one member of the enumerated space)."""
    import emd.sift as S
    capture()
    problems = []
    n = 0
    for name in SCHED_SIGNALS[:2]:
        x = signals.fb_signal(name, seed)
        with forkpool.installed(forkpool.SerialMP()):
            ref = np.asarray(_orig['mask_sift'](x.copy(), mask_freqs=0.25, mask_amp_mode='ratio_sig', nphases=4, max_imfs=2))
        for P in (1, 2, 3):
            try:
                with guard.watchdog(120):
                    got = np.asarray(_orig['mask_sift'](x.copy(), mask_freqs=0.25, mask_amp_mode='ratio_sig', nphases=4, nprocesses=P, max_imfs=2))
            except Exception as e:
                problems.append('real pool nprocesses=%d raised %r' % (P, e))
                continue
            if not np.array_equal(got, ref):
                problems.append('real pool nprocesses=%d: result differs from the serial result' % P)
            else:
                n += 1
    return n, problems


def run(ctx):
    capture()
    rep = ctx.explore(lambda: cases(ctx.tier, ctx.seed), check_case, timeout_s=TIMEOUT, init=capture)
    n, problems = real_pool_conformance(ctx.tier, ctx.seed)
    rep.validated += n
    for p_ in problems:
        rep.viols.setdefault('conformance', [0, 10 ** 9, ('conformance', 'fb', (), ctx.tier, ctx.seed), p_])[0] += 1
    ctx.coverage_extra['real_pool_conformance_runs'] = n
    return rep


def worker_init():
    capture()


def nonvacuity(rep, ctx):
    need = {'spec:multi', 'single', 'sched1:multi-worker', 'sched2:multi-worker', 'reuse:P=1', 'reuse:P=2'}
    errs = []
    if not need <= set(rep.classes):
        errs.append('vacuous: outcome classes %r' % dict(rep.classes))
    if rep.classes.get('spec-skipped', 0) > 0.5 * sum(v for k, v in rep.classes.items() if k.startswith('spec')):
        errs.append('more than half of the specification cases were skipped')
    return errs
