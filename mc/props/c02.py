"""C02 - sifting commutes with rescaling, sign flip and time reversal.

Space (explorer I): signals F (non-final 4-level sequences of length 6..L, structured grid F_B) x a 24-point option
sub-grid (8 stop rules x 3 interpolation methods, step and pad alternating) x transforms
{x(+-2^k), k in {-8,-3,-1,0,1,3,8}} u {x3, x(-0.7), x1e3, x pi} u {time reversal} x {get_next_imf, sift};
mask_sift under positive rescaling for ratio amplitude modes ('abs' mode is the negative control).
Oracle: bit equality for dyadic factors and -1; 1e-9 relative otherwise, outside a measured guard band.
"""
import numpy as np

from ..engine.explore import Outcome
from . import signals
from .c01 import STOPS, INTERPS, opts_of

PID = 'C02'
TIMEOUT = 1800.0
RULE = ('every (signal, option set) pair of the grid; per pair 17 transformed runs of get_next_imf and of sift '
        '(13 exact, 4 approximate scalings, 1 reversal) compared with the transformed base run; mask cases: 6 positive '
        'factors x 8 mask configurations; non-trivial = base decomposition has >= 2 columns')
ASSUMPTIONS = ['non-dyadic scalings and time reversal are judged only when every stop decision of both runs is farther '
               'than 1e-7 (relative) from its threshold and no iterate has a non-zero neighbour difference below 1e-9 of '
               'its amplitude, nor (for the zero-crossing frequency source) a sample within 1e-9 of zero (guard band, measured at '
               'seams on sd_stop / rilling_stop / _find_extrema / zero_crossing_count); exclusions are counted',
               'mask sifts are only claimed under positive rescaling (a fixed-phase mask set is not sign-symmetric)',
               'sift_thresh is an absolute amount in signal units and is rescaled together with the signal (|c|*1e-8)',
               'a run that raises EMDSiftCovergeError must do so for the transformed input as well (dyadic) / is skipped (others)']

DYADIC = [s * 2.0 ** k for k in (-8, -3, -1, 1, 3, 8) for s in (1, -1)] + [-1.0]
OTHER = [3.0, -0.7, 1e3, np.pi]
MASK_FACTORS = [2.0, 0.5, 256.0, 3.0, 1e3, 0.7]
MASKCFG = [(mode, freqs, nph) for mode in ('ratio_sig', 'ratio_imf') for freqs in ('zc', 0.2) for nph in (1, 4)] + [('OMITTED', 0.2, 2), ('OMITTED', 'zc', 4)]

SUB24 = []
for _i, (_st, _ip) in enumerate([(s, ip) for s in STOPS for ip in INTERPS]):
    SUB24.append((_st, (1.0, 1.0 / 3)[_i % 2], _ip, (1, 2)[(_i // 2) % 2]))

_m = {'stop': 1.0, 'tie': 1.0}
_orig = {}


def worker_init():
    import emd.sift as S
    if _orig:
        return
    _orig.update(sd=S.sd_stop, ril=S.rilling_stop, fe=S._find_extrema, zc=S.zero_crossing_count)

    def zero_crossing_count(X):
        # the zero-crossing count decides on the SIGN of every sample: a sample within rounding distance of zero
        # (or exactly zero in one run and 4e-16 in the other) is a decision on the last bit -> tie margin
        v = np.abs(np.asarray(X, dtype=float)).reshape(-1)
        if v.size and v.max() > 0:
            _m['tie'] = min(_m['tie'], v.min() / v.max())
        return _orig['zc'](X)
    S.zero_crossing_count = zero_crossing_count

    def sd_stop(proto_imf, prev_imf, sd=0.2, niters=None):
        stop, metric = _orig['sd'](proto_imf, prev_imf, sd=sd, niters=niters)
        if np.isfinite(metric):
            _m['stop'] = min(_m['stop'], abs(metric - sd) / sd)
        return stop, metric

    def rilling_stop(upper_env, lower_env, sd1=0.05, sd2=0.5, tol=0.05, niters=None):
        with np.errstate(all='ignore'):
            E = np.abs((upper_env + lower_env) / 2) / (np.abs(upper_env - lower_env) / 2)
        E = E[np.isfinite(E)]
        if len(E):
            _m['stop'] = min(_m['stop'], np.min(np.abs(E - sd1)) / sd1, np.min(np.abs(E - sd2)) / sd2)
        return _orig['ril'](upper_env, lower_env, sd1=sd1, sd2=sd2, tol=tol, niters=niters)

    def _find_extrema(X, *a, **k):
        x = np.asarray(X).reshape(-1)
        if len(x) > 1:
            dd = np.abs(np.diff(x))
            nz = dd[dd > 0]
            amp = np.max(np.abs(x))
            if len(nz) and amp > 0:
                _m['tie'] = min(_m['tie'], np.min(nz) / amp)
        return _orig['fe'](X, *a, **k)
    S.sd_stop = sd_stop
    S.rilling_stop = rilling_stop
    S._find_extrema = _find_extrema


def bounds(tier):
    if tier == 'quick':
        return {'max_len': 6, 'fb_sizes': (32,), 'stride': 6, 'mask_signals': 6}
    return {'max_len': 7, 'fb_sizes': (32, 64), 'stride': 1, 'mask_signals': 40}


def cases(tier, seed):
    b = bounds(tier)
    k = 0
    for idx in signals.fa_indices(4, 6, b['max_len']):
        mx, mn = signals.strict_extrema(idx)
        if len(mx) < 2 or len(mn) < 2:
            continue
        k += 1
        for ci in range(k % b['stride'], 24, b['stride']):
            yield ('sift', 'fa', idx, ci, seed)
    # larger scope: thousands of samples (stopping metrics evaluated on long envelopes) and slow, finely sampled
    # oscillations (thousands of samples per cycle: curvature at the extrema is tiny in absolute terms)
    for name in (('noisy', 2500), ('slow', 24000)):
        for ci in ((9, 12) if name[0] == 'noisy' else (0, 21)):
            yield ('sift', 'long', name, ci, seed)
    # larger scope: fixed counts of hundreds of iterations on a nearly mono-component record riding on an offset
    # (after a few dozen iterations the envelope mean is tiny - relative to what?)
    for off in (3.0, -3.0, 0.0):
        for n_ in (130, 400):
            yield ('sift', 'long', ('offset-tone', 256, off), ('fixed', n_), seed)
    # parabolic refinement of the extrema (an extrema-stage option): peaks and troughs must be treated alike
    for i, name in enumerate(signals.fb_names((32,))):
        if name[0] in ('noise', 'walk'):
            continue
        for ci in ((i * 5) % 24, (i * 7 + 9) % 24):
            if SUB24[ci][0][0] == 'rilling' and SUB24[ci][1] < 1:
                continue
            yield ('sift', 'fb-par', name, ci, seed)
    nm = 0
    for name in signals.fb_names(b['fb_sizes']):
        k += 1
        heavy = name[0] in ('noise', 'walk')
        for ci in range(k % b['stride'], 24, b['stride']):
            if heavy and SUB24[ci][0][0] == 'rilling':
                continue    # ~1000 iterations per IMF on noise x 36 transformed runs: outside both budgets
            if tier == 'quick' and SUB24[ci][0][0] == 'rilling' and SUB24[ci][1] < 1:
                continue    # slow-converging combinations: thorough tier only
            if tier == 'quick' and heavy and not (SUB24[ci][0][0] == 'fixed' or SUB24[ci][0] == ('sd', 0.3)):
                continue
            yield ('sift', 'fb', name, ci, seed)
        if nm < b['mask_signals']:
            nm += 1
            for mi in range(len(MASKCFG)):
                yield ('mask', 'fb', name, mi, seed)
            yield ('mask-abs', 'fb', name, 0, seed)


def decode_case(c):
    c = list(c)
    c[2] = tuple(c[2])
    return tuple(c)


def signal_of(case):
    if case[1] == 'fa':
        return signals.fa_signal(case[2], 4, case[4])
    if case[1] == 'long' and case[2][0] == 'offset-tone':
        t = np.linspace(0, 1, case[2][1])
        return np.sin(2 * np.pi * (9.3 + 0.1 * (case[4] % 5)) * t + 0.4) + case[2][2]
    if case[1] == 'long':
        kind, n = case[2]
        t = np.arange(n)
        if kind == 'noisy':
            tab = signals.noise_table(case[4])
            return np.cos(2 * np.pi * t / 41.0) + 0.6 * np.cos(2 * np.pi * t / 9.3 + 1.0) + 0.3 * np.tile(tab[0], n // 256 + 1)[:n]
        return np.cos(2 * np.pi * t / 6000.0 + 0.4) + 0.25 * np.cos(2 * np.pi * t / 1370.0)
    return signals.fb_signal(case[2], case[4])


def run_guarded(f):
    """Run f(); return (result | exception, stop_margin, tie_margin)."""
    from emd.support import EMDSiftCovergeError
    _m['stop'] = 1.0
    _m['tie'] = 1.0
    try:
        r = f()
    except EMDSiftCovergeError as e:
        r = e
    except Exception as e:      # anything else is not a documented outcome of a sift: reported by the caller
        _other.append(repr(e))
        r = e
    return r, _m['stop'], _m['tie']


_other = []


def check_case(case):
    worker_init()
    if case[0] == 'sift':
        return check_sift(case)
    from ..engine import forkpool
    with forkpool.installed(forkpool.SerialMP()):
        return check_mask(case)


def check_sift(case):
    from emd.sift import sift, get_next_imf
    x = signal_of(case)
    N = len(x)
    if isinstance(case[3], (tuple, list)):
        (rule, par), step, interp, pad = tuple(case[3]), 1.0, 'splrep', 2
    else:
        (rule, par), step, interp, pad = SUB24[case[3]]
    o = opts_of(rule, par, step, interp, pad)
    if case[1] == 'fb-par':
        o['extrema_opts']['parabolic_extrema'] = True
    tag = 'x=%s%s stop=%s%r step=%.3g interp=%s pad=%d' % ('parabolic extrema, ' if case[1] == 'fb-par' else '', 
        x.tolist() if N <= 12 else '%s%r' % (case[1], case[2]), rule, par, step, interp, pad)
    viols = []
    trans = 0
    excluded = 0
    judged = 0
    amp = 1 + np.max(np.abs(x))

    def f_sift(sig, c=1.0):
        # sift_thresh is an absolute quantity in signal units: it is rescaled together with the signal
        return np.asarray(sift(sig.copy(), sift_thresh=1e-8 * abs(c), **o))

    def f_gni(sig, c=1.0):
        imf, flag = get_next_imf(sig.copy()[:, None], envelope_opts=o['envelope_opts'], extrema_opts=o['extrema_opts'], **o['imf_opts'])
        return np.c_[np.asarray(imf), np.full((len(sig), 1), float(bool(flag)))]

    def f_sift_pos(sig, c=1.0):
        # threshold and cap by position, in the documented order (X, sift_thresh, max_imfs)
        return np.asarray(sift(sig.copy(), 1e-8 * abs(c), 3, **o))

    ncols = 0
    forms = (('sift', f_sift), ('get_next_imf', f_gni))
    if case[1] == 'fb' and not isinstance(case[3], (tuple, list)) and case[3] % 3 == 0:
        forms += (('sift-positional', f_sift_pos),)
    for fname, f in forms:
        base, bs, bt = run_guarded(lambda: f(x))
        trans += 1
        if isinstance(base, Exception):
            base_exc = True
        else:
            base_exc = False
            if fname == 'sift':
                ncols = base.shape[1]
        for c in (DYADIC if N <= 1000 else (2.0 ** -8, -(2.0 ** 8), -1.0)):
            got, _, _ = run_guarded(lambda: f(c * x, c))
            trans += 1
            if base_exc or isinstance(got, Exception):
                if base_exc != isinstance(got, Exception):
                    viols.append(('%s:dyadic:convergence-differs' % fname, '%s factor %r: one run raised the convergence error, the other did not' % (tag, c)))
                continue
            want = base.copy()
            if fname == 'get_next_imf':
                want[:, 0] *= c
            else:
                want = want * c
            if got.shape != want.shape or not np.array_equal(got, want):
                why = 'columns %r vs %r' % (got.shape, want.shape) if got.shape != want.shape else 'max diff %.3g' % np.max(np.abs(got - want))
                viols.append(('%s:dyadic:%s' % (fname, 'neg' if c < 0 else 'pos'), '%s: f(%r*x) != %r*f(x) bit-for-bit (%s)' % (tag, c, c, why)))
        for c in (OTHER + ['reverse'] if N <= 1000 else [3.0, 'reverse']):
            if c == 'reverse':
                got, gs, gt = run_guarded(lambda: f(x[::-1].copy()))
            else:
                got, gs, gt = run_guarded(lambda: f(c * x, c))
            trans += 1
            if min(bs, gs) < 1e-7 or min(bt, gt) < 1e-9:
                excluded += 1
                continue
            judged += 1
            if base_exc or isinstance(got, Exception):
                continue
            if c == 'reverse':
                want = base[::-1]
                scale = amp
            else:
                want = base.copy()
                if fname == 'get_next_imf':
                    want[:, 0] *= c
                else:
                    want = want * c
                scale = amp * abs(c)
            if got.shape != want.shape:
                viols.append(('%s:%s:columns' % (fname, 'reverse' if c == 'reverse' else 'scale'),
                              '%s transform %r: %r columns vs %r' % (tag, c, got.shape, want.shape)))
            elif not np.max(np.abs(got - want)) <= 1e-9 * scale:
                viols.append(('%s:%s:value' % (fname, 'reverse' if c == 'reverse' else 'scale'),
                              '%s transform %r: max diff %.3g (scale %.3g)' % (tag, c, np.max(np.abs(got - want)), scale)))
    if _other:
        viols.append(('sift:raise', '%s: a run raised %s' % (tag, _other[0])))
        del _other[:]
    out = Outcome(cls='sift:%s' % ('multi' if ncols >= 2 else 'single'), transitions=trans, viols=viols, nontrivial=ncols >= 2)
    out.excluded = judged == 0 and excluded > 0
    return out


def check_mask(case):
    from emd.sift import mask_sift
    x = signal_of(case)
    N = len(x)
    if case[0] == 'mask-abs':
        mode, freqs, nph = 'abs', 0.2, 4
    else:
        mode, freqs, nph = MASKCFG[case[3]]
    tag = 'F_B%r mask_amp_mode=%s mask_freqs=%r nphases=%d' % (case[2], mode, freqs, nph)
    viols = []
    trans = 0

    amps = np.array([1.0, 0.6, 1.4, 0.8])      # one array object for all calls of this case, as a user would reuse it

    def f(sig, c=1.0):
        if mode == 'OMITTED':
            # amplitude mode not given: the documented default is a ratio (of the previous IMF), so the scaling law holds
            return np.asarray(mask_sift(sig.copy(), mask_freqs=freqs, nphases=nph, max_imfs=4, mask_amp=amps if case[3] % 2 else list(amps),
                                        sift_thresh=1e-8 * abs(c)))
        return np.asarray(mask_sift(sig.copy(), mask_amp_mode=mode, mask_freqs=freqs, nphases=nph, max_imfs=4,
                                    mask_amp=amps if case[3] % 2 else 1, sift_thresh=1e-8 * abs(c)))
    base, bs, bt = run_guarded(lambda: f(x))
    trans += 1
    if isinstance(base, Exception):
        v_ = [('mask:raise', '%s: a run raised %s' % (tag, _other[0]))] if _other else []
        del _other[:]
        return Outcome(cls='converge-error', nontrivial=False, viols=v_)
    differs = 0
    for c in MASK_FACTORS:
        got, gs, gt = run_guarded(lambda: f(c * x, c))
        trans += 1
        if isinstance(got, Exception):
            continue
        want = base * c
        dyadic = c in (2.0, 0.5, 256.0)
        if mode == 'abs':
            if got.shape != want.shape or not np.max(np.abs(got - want)) <= 1e-9 * abs(c) * (1 + np.max(np.abs(x))):
                differs += 1
            continue
        if dyadic:
            if got.shape != want.shape or not np.array_equal(got, want):
                viols.append(('mask:dyadic', '%s: mask_sift(%r*x) != %r*mask_sift(x) bit-for-bit' % (tag, c, c)))
        else:
            if min(bs, gs) < 1e-7 or min(bt, gt) < 1e-9:
                continue
            if got.shape != want.shape or not np.max(np.abs(got - want)) <= 1e-9 * abs(c) * (1 + np.max(np.abs(x))):
                viols.append(('mask:scale', '%s: factor %r: shapes %r/%r max diff %s' % (
                    tag, c, got.shape, want.shape, np.max(np.abs(got - want)) if got.shape == want.shape else 'n/a')))
    if _other:
        viols.append(('mask:raise', '%s: a run raised %s' % (tag, _other[0])))
        del _other[:]
    if mode == 'abs':
        return Outcome(cls='mask-abs:%s' % ('differs' if differs else 'same'), transitions=trans, viols=viols, nontrivial=differs > 0)
    return Outcome(cls='mask', transitions=trans, viols=viols, nontrivial=base.shape[1] >= 2)


def nonvacuity(rep, ctx):
    errs = []
    if not {'sift:multi', 'mask', 'mask-abs:differs'} <= set(rep.classes):
        errs.append('vacuous: outcome classes %r (the abs-mode negative control must be seen to break scaling)' % dict(rep.classes))
    return errs
