"""C19 - array inputs are layout-insensitive, validated and never modified.

Space (explorer I over "programs" = entry points): every public numeric entry point x the layouts its documented
contract accepts or rejects x {writable, read-only} arrays x option dictionaries reused across two calls x signals.
Oracle: accepted layouts give identical results; rejected layouts / mismatched lengths raise within the watchdog;
inputs and option dictionaries are byte-identical / deep-equal afterwards; a repeated call returns identical bytes.
"""
import copy
import numpy as np

from ..engine.explore import Outcome
from ..engine import forkpool, guard
from . import signals

PID = 'C19'
TIMEOUT = 180.0
CALL_TIMEOUT = 15.0
RULE = ('every (entry point, signal) pair; per pair: all accepted layouts (writable and read-only, called twice), all '
        'rejected layouts, all length mismatches; plus every history of 3 (thorough: 4) read-only queries (16-query alphabet) on one cycle '
        'container, each answer compared with that of a fresh container; non-trivial = entry point has both accepted and rejected inputs')
ASSUMPTIONS = ['the accepted / rejected layout sets are those of the property text: (n,), (n,1), (n,1,1) vs (n,2), (1,n), '
               '(n,2,3) for the single-signal sift routines; vector vs single column for transforms, envelope and cycle '
               'routines; equal vs shorter / longer second argument for multi-array routines',
               'results of different accepted layouts are compared after squeezing singleton axes',
               'worker pools are replaced by the in-process serial pool; the RNG is reseeded before stochastic calls']

SIGNALS = [('tone', 32, 2, 'lin', 'none'), ('noise', 64, 1, 'none', 'none'), ('tone', 64, 3, 'none', 'am')]


def lay(x, kind):
    if kind == 'v':
        return x.copy()
    if kind == 'c':
        return x[:, None].copy()
    if kind == 'c11':
        return x[:, None, None].copy()
    if kind == 'n2':
        return np.c_[x, x[::-1]].copy()
    if kind == 'row':
        return x[None, :].copy()
    if kind == 'n23':
        return np.tile(x[:, None, None], (1, 2, 3)).copy()
    if kind == '1n1':
        return x[None, :, None].copy()
    if kind == '11n':
        return x[None, None, :].copy()
    if kind == 'n21':
        return np.c_[x, x[::-1]][:, :, None].copy()
    raise KeyError(kind)


SIFT_ACC = ('v', 'c', 'c11')
SIFT_REJ = ('n2', 'row', 'n23', '1n1', '11n', 'n21')
VC = ('v', 'c')


def phase_of(x):
    n = len(x)
    return np.mod(2 * np.pi * 5.3 * np.arange(n) / n + 0.2, 2 * np.pi)


def opts():
    return dict(imf_opts={'env_step_size': 0.5, 'sd_thresh': 0.2},
                envelope_opts={'interp_method': 'pchip'},
                extrema_opts={'pad_width': 3, 'loc_pad_opts': {'mode': 'reflect', 'reflect_type': 'odd'},
                              'mag_pad_opts': {'mode': 'median', 'stat_length': 1}})


def ident(x):
    return x


def freq_of(x):
    return np.abs(x) * 0.4          # some values above the last bin edge (0.5): exercises the out-of-range paths


def amp_of(x):
    return np.abs(x) + 1.0


def env_of(x):
    return np.abs(x) + 0.1


def entries():
    """Entry table.  `prep` maps the raw signal to the vector that is laid out and handed to the library UNCHANGED, so
    that the array whose bytes are compared before / after is the very array the routine received."""
    import emd
    S, SP, CY, U = emd.sift, emd.spectra, emd.cycles, emd.utils
    E = []

    def add(name, fn, acc, rej=(), mism=None, optdicts=None, prep=ident):
        E.append(dict(name=name, fn=fn, acc=acc, rej=rej, mism=mism, optdicts=optdicts, prep=prep))

    def two(f):
        return lambda: [f(), {}]
    # single-signal sift routines: fn(primary array, option dicts) -> result
    add('sift', lambda a, o: S.sift(a, max_imfs=3, **o), SIFT_ACC, SIFT_REJ, optdicts=lambda: [opts(), {}, with_energy()])
    def with_energy():
        o = opts()
        o['imf_opts'] = dict(o['imf_opts'], energy_thresh=50)
        return o
    add('get_next_imf', lambda a, o: S.get_next_imf(a, envelope_opts=o.get('envelope_opts'), extrema_opts=o.get('extrema_opts'), **o.get('imf_opts', {})),
        SIFT_ACC, SIFT_REJ, optdicts=lambda: [opts(), {}, with_energy()])
    add('get_next_imf_mask', lambda a, o: S.get_next_imf_mask(a, 0.2, 0.5, nphases=2, **o), SIFT_ACC, SIFT_REJ, optdicts=two(opts))
    add('mask_sift', lambda a, o: S.mask_sift(a, max_imfs=2, nphases=2, **o), SIFT_ACC, SIFT_REJ,
        optdicts=lambda: [opts(), {}, dict(mask_freqs=np.array([0.3, 0.1]), mask_amp=np.array([1.0, 0.5]), mask_amp_mode='ratio_sig'),
                          dict(imf_opts={'energy_thresh': 50, 'sd_thresh': 0.2})])
    add('ensemble_sift', lambda a, o: S.ensemble_sift(a, nensembles=2, max_imfs=2, **o), SIFT_ACC, SIFT_REJ,
        optdicts=lambda: [opts(), dict(noise_mode='flip')])
    add('complete_ensemble_sift', lambda a, o: S.complete_ensemble_sift(a, nensembles=2, max_imfs=2, **o), SIFT_ACC, SIFT_REJ,
        optdicts=lambda: [opts(), dict(noise_mode='flip')])
    # second layer: IA is [samples x imfs]; a vector is one IMF
    add('sift_second_layer', lambda a, o: S.sift_second_layer(a, sift_args=o), VC, prep=env_of,
        optdicts=lambda: [dict(max_imfs=2, imf_opts={'sd_thresh': 0.2}, extrema_opts={'pad_width': 1, 'mag_pad_opts': {'mode': 'median', 'stat_length': 1}}),
                          dict(imf_opts={'sd_thresh': 0.3})])
    def second_layer_defaults(a, o):
        # default / empty sift_args across calls with different numbers of first-layer IMFs: nothing may be remembered
        one = a.reshape(len(a), -1)[:, :1]
        three = np.c_[one, one[::-1] * 0.7 + 0.05, one * 0.4 + 0.2]
        S.sift_second_layer(one.copy(), **o)
        got = np.asarray(S.sift_second_layer(three.copy(), **o))
        want = np.asarray(S.sift_second_layer(three.copy(), sift_args={'max_imfs': 3}))
        if got.shape != want.shape or not np.array_equal(got, want):
            raise AssertionError('sift_second_layer with default arguments gives shape %r after an earlier call on one IMF, '
                                 'expected %r' % (got.shape, want.shape))
        return got
    add('sift_second_layer:defaults', second_layer_defaults, VC, prep=env_of, optdicts=lambda: [{}, dict(sift_args={})])
    add('mask_sift_second_layer', lambda a, o: S.mask_sift_second_layer(a, o.pop('__freqs__'), sift_args=o.pop('__args__')), VC, prep=env_of,
        optdicts=lambda: [{'__freqs__': np.array([0.2, 0.1, 0.05]), '__args__': dict(nphases=2, imf_opts={'sd_thresh': 0.2})},
                          {'__freqs__': np.array([0.2, 0.1, 0.05]), '__args__': None}])
    # envelope / extrema routines
    add('get_padded_extrema', lambda a, o: S.get_padded_extrema(a, **o), VC,
        optdicts=lambda: [dict(pad_width=2, loc_pad_opts={'mode': 'reflect', 'reflect_type': 'odd'}, mag_pad_opts={'mode': 'median', 'stat_length': 1}),
                          dict(pad_width=0, mode='troughs'), dict(parabolic_extrema=True, mode='abs_peaks')])
    add('interp_envelope', lambda a, o: S.interp_envelope(a, **o), VC,
        optdicts=lambda: [dict(mode='upper', extrema_opts=dict(pad_width=2, mag_pad_opts={'mode': 'median', 'stat_length': 1})),
                          dict(mode='lower', interp_method='pchip'), dict(mode='combined', ret_extrema=True)])
    # transforms
    for m in ('hilbert', 'nht', 'quad'):
        add('frequency_transform:%s' % m, (lambda m_: lambda a, o: SP.frequency_transform(a, 100.0, m_, **o))(m), SIFT_ACC,   # [n x 1 x 1] = second-level layout
            optdicts=lambda: [{}, dict(smooth_phase=None)])
    add('amplitude_normalise', lambda a, o: U.amplitude_normalise(a, **o), VC,
        optdicts=lambda: [{}, dict(max_iters=1), dict(clip=True, interp_method='splrep', max_iters=2), dict(thresh=1e-3, max_iters=8)])
    # spectra (second argument must match)
    edges = np.linspace(0, 0.5, 6)
    add('hilberthuang', lambda a, o, b=None: SP.hilberthuang(a, b, edges.copy(), **o), VC, prep=freq_of,
        mism=lambda x: [amp_of(x)[:-1], amp_of(np.r_[x, x[:2]])], optdicts=lambda: [{}, dict(mode='amplitude', return_sparse=True)])
    add('hilberthuang_1d', lambda a, o, b=None: SP.hilberthuang_1d(a, b, edges.copy(), **o), VC, prep=freq_of,
        mism=lambda x: [amp_of(x)[:-1], amp_of(np.r_[x, x[:2]])], optdicts=lambda: [{}, dict(mode='amplitude')])
    add('holospectrum', lambda a, o, b=None: SP.holospectrum(a, freq_of(np.asarray(b)) * 0.5, b, edges.copy(), edges.copy(), **o), VC, prep=freq_of,
        mism=lambda x: [amp_of(x)[:-1].reshape(-1, 1, 1), amp_of(np.r_[x, x[:2]]).reshape(-1, 1, 1)],
        optdicts=lambda: [{}, dict(squash_time=False, mode='amplitude')])
    # cycle routines operate on a phase series
    add('get_cycle_vector', lambda a, o: CY.get_cycle_vector(a, **o), VC, prep=phase_of,
        optdicts=lambda: [dict(return_good=False), dict(return_good=True, phase_edge=np.pi / 4)])
    add('get_cycle_vector:mask', lambda a, o, b=None: CY.get_cycle_vector(a, return_good=True, mask=b), VC, prep=phase_of,
        mism=lambda x: [np.ones(len(x) - 1, dtype=bool), np.ones(len(x) + 2, dtype=bool)])
    add('get_cycle_stat', lambda a, o, b=None: CY.get_cycle_stat(b, a, func=np.max, **o), VC,
        mism=lambda x: [np.repeat(np.arange(len(x)), 4)[:len(x) - 1], np.repeat(np.arange(len(x)), 4)[:len(x) + 2]],
        optdicts=lambda: [{}, dict(out='samples')])
    add('phase_align', lambda a, o, b=None: CY.phase_align(a, b, npoints=8, **o), VC, prep=phase_of,
        mism=lambda x: [x[:-1].copy(), np.r_[x, x[:2]]], optdicts=lambda: [{}, dict(interp_kind='nearest')])
    add('bin_by_phase', lambda a, o, b=None: CY.bin_by_phase(a, b, nbins=6)[0], VC, prep=phase_of,
        mism=lambda x: [x[:-1].copy(), np.r_[x, x[:2]]])
    add('Cycles', lambda a, o: CY.Cycles(a, compute_timings=True, **o).get_metric_dataframe().to_numpy(), VC, rej=('n2',), prep=phase_of,
        optdicts=lambda: [{}, dict(use_cache=False, phase_edge=np.pi / 4)])
    return E


def second_arg(name, x, kind):
    """The matching second array for the multi-array routines (laid out like the primary where the contract allows)."""
    n = len(x)
    if name in ('hilberthuang', 'hilberthuang_1d'):
        return lay(amp_of(x), kind)
    if name == 'holospectrum':
        return amp_of(x).reshape(n, 1, 1)
    if name == 'get_cycle_vector:mask':
        return lay(np.ones(n), kind).astype(bool)
    if name == 'get_cycle_stat':
        return np.repeat(np.arange(n // 4 + 1), 4)[:n]
    if name in ('phase_align', 'bin_by_phase'):
        return lay(x, kind) if name == 'phase_align' else x.copy()
    return None


def entry_names():
    return ['sift', 'get_next_imf', 'get_next_imf_mask', 'mask_sift', 'ensemble_sift', 'complete_ensemble_sift',
            'sift_second_layer', 'sift_second_layer:defaults', 'mask_sift_second_layer', 'get_padded_extrema',
            'interp_envelope', 'frequency_transform:hilbert', 'frequency_transform:nht', 'frequency_transform:quad',
            'amplitude_normalise', 'hilberthuang', 'hilberthuang_1d', 'holospectrum', 'get_cycle_vector',
            'get_cycle_vector:mask', 'get_cycle_stat', 'phase_align', 'bin_by_phase', 'Cycles']


def bounds(tier):
    return {'signals': 2 if tier == 'quick' else 3, 'query_history_depth': 3 if tier == 'quick' else 4}


def cases(tier, seed):
    for si in range(bounds(tier)['signals']):
        for name in entry_names():
            yield (name, si, seed)
    # one cycle container handed to a history of read-only queries: the answer to a query is that of a fresh container
    for si in range(bounds(tier)['signals']):
        for first in range(len(QUERY_NAMES)):
            yield ('Cycles:queries', si, seed, first, 3 if tier == 'quick' else 4)


QUERY_NAMES = ('stat:cycle', 'stat:augmented', 'stat:samples', 'align:cycle', 'align:augmented', 'ctrl:cycle', 'ctrl:augmented',
               'iterate', 'iterate:augmented', 'inds:augmented', 'dataframe', 'matching',
               'stat:augmented:iter', 'align:augmented:iter', 'ctrl:augmented:iter', 'align:cycle:iter')
# the same question asked with a pre-built iterator (C.iterate()) instead of the container itself: same answer
SAME_ANSWER = (('stat:augmented:iter', 'stat:augmented'), ('align:augmented:iter', 'align:augmented'), ('ctrl:augmented:iter', 'ctrl:augmented'),
               ('align:cycle:iter', 'align:cycle'))


def run_query(qi, C, x, phase):
    import emd
    CY = emd.cycles
    q = QUERY_NAMES[qi]
    if q == 'stat:augmented:iter':
        return np.asarray(CY.get_cycle_stat(C.iterate(through='cycles'), x, func=np.max, mode='augmented'))
    if q == 'align:augmented:iter':
        return np.asarray(CY.phase_align(phase, x, cycles=C.iterate(through='cycles'), npoints=8, interp_kind='nearest', mode='augmented')[0])
    if q == 'align:cycle:iter':
        return np.asarray(CY.phase_align(phase, x, cycles=C.iterate(through='cycles', mode='augmented'), npoints=8, interp_kind='nearest', mode='cycle')[0])
    if q == 'ctrl:augmented:iter':
        return np.asarray(CY.get_control_points(x, C.iterate(through='cycles'), mode='augmented'))
    if q == 'stat:cycle':
        return np.asarray(CY.get_cycle_stat(C, x, func=np.max))
    if q == 'stat:augmented':
        return np.asarray(CY.get_cycle_stat(C, x, func=np.max, mode='augmented'))
    if q == 'stat:samples':
        return np.asarray(CY.get_cycle_stat(C, x, func=np.mean, out='samples'))
    if q == 'align:cycle':
        return np.asarray(CY.phase_align(phase, x, cycles=C, npoints=8, interp_kind='nearest')[0])
    if q == 'align:augmented':
        return np.asarray(CY.phase_align(phase, x, cycles=C, npoints=8, interp_kind='nearest', mode='augmented')[0])
    if q == 'ctrl:cycle':
        return np.asarray(CY.get_control_points(x, C))
    if q == 'ctrl:augmented':
        return np.asarray(CY.get_control_points(x, C, mode='augmented'))
    def ragged(items):
        out = []
        for i, inds in items:
            inds = [] if inds is None else np.asarray(inds).reshape(-1).tolist()
            out.extend([-1000 - int(i), len(inds)] + [int(v) for v in inds])
        return np.array(out, dtype=float)
    if q == 'iterate':
        return ragged(C)
    if q == 'iterate:augmented':
        return ragged(C.iterate(mode='augmented'))
    if q == 'inds:augmented':
        def inds_of(i):
            r = C.get_inds_of_cycle(i, mode='augmented')
            return [] if r is None else r
        return ragged((i, inds_of(i)) for i in range(C.ncycles))
    if q == 'dataframe':
        return C.get_metric_dataframe().to_numpy()
    return np.asarray(C.get_matching_cycles(['is_good==1']))


def check_queries(case):
    """All histories q1 q2 [q3] over the query alphabet that start with query `first`: every answer equals the answer
    the same query gets from a freshly built container (and the phase / signal arrays stay untouched)."""
    import emd
    name, si, seed, first = case[:4]
    depth = case[4] if len(case) > 4 else 3
    x = signals.fb_signal(SIGNALS[si], seed)
    phase = phase_of(x)
    viols = []
    trans = 0
    fresh = {}

    def answer(qi, C):
        try:
            with guard.watchdog(CALL_TIMEOUT):
                return ('ok', run_query(qi, C, x, phase))
        except guard.CaseTimeout:
            raise
        except Exception as e:
            return ('raise', type(e).__name__)

    def new():
        return emd.cycles.Cycles(phase.copy(), compute_timings=True)
    for qi in range(len(QUERY_NAMES)):
        fresh[qi] = answer(qi, new())
    if first == 0:
        for qa, qb in SAME_ANSWER:
            a_, b_ = fresh[QUERY_NAMES.index(qa)], fresh[QUERY_NAMES.index(qb)]
            ok = a_[0] == b_[0] and (a_[1] == b_[1] if a_[0] == 'raise' else same(a_[1], b_[1]))
            if not ok:
                viols.append(('route-changes-answer:%s' % qb.split(':')[0], 'Cycles on F_B%r: %s through a pre-built iterator (C.iterate()) differs from the same '
                              'request on the container: %s vs %s' % (SIGNALS[si], qb, a_[0] if a_[0] == 'raise' else 'values', b_[0] if b_[0] == 'raise' else 'values')))
    if first == 1:
        # arrays that do not have the container's number of samples are rejected, whichever form `cycles` takes
        CY = emd.cycles
        for extra in (7, 1):
            xl, pl = np.r_[x, x[:extra]], np.r_[phase, phase[:extra]]
            for form in ('container', 'iterator'):
                def cyc():
                    C_ = new()
                    return C_ if form == 'container' else C_.iterate(through='cycles')
                for nm_, f_ in (('get_cycle_stat', lambda: CY.get_cycle_stat(cyc(), xl, func=np.max)),
                                ('phase_align', lambda: CY.phase_align(pl, xl, cycles=cyc(), npoints=8)),
                                ('get_control_points', lambda: CY.get_control_points(xl, cyc()))):
                    try:
                        with guard.watchdog(CALL_TIMEOUT):
                            f_()
                        viols.append(('mismatch:processed:%s' % form, '%s with cycles given as a %s and arrays %d sample(s) longer than the '
                                      'recording was processed instead of rejected' % (nm_, form, extra)))
                    except guard.CaseTimeout:
                        raise
                    except Exception:
                        pass
                    trans += 1
    x0, p0 = x.copy(), phase.copy()
    import itertools
    for rest in itertools.product(range(len(QUERY_NAMES)), repeat=depth - 1):
        hist = (first,) + rest
        C = new()
        for k, qi in enumerate(hist):
            got = answer(qi, C)
            trans += 1
            want = fresh[qi]
            ok = got[0] == want[0] and (got[1] == want[1] if got[0] == 'raise' else same(got[1], want[1]))
            if not ok:
                viols.append(('query-depends-on-history:%s' % QUERY_NAMES[qi].split(':')[0],
                              'Cycles on F_B%r: query %s after %s answers differently from the same query on a fresh container' % (
                                  SIGNALS[si], QUERY_NAMES[qi], [QUERY_NAMES[j] for j in hist[:k]])))
                break
        if len(viols) > 20:
            break
    if not (np.array_equal(x, x0) and np.array_equal(phase, p0)):
        viols.append(('input-modified', 'Cycles queries on F_B%r changed the signal or phase array' % (SIGNALS[si],)))
    viols = [('Cycles:queries|%s' % k_, m_) for k_, m_ in viols]
    return Outcome(cls='queries', transitions=trans, viols=viols, nontrivial=True)


def flat(r):
    """Comparable form of a result: list of squeezed arrays / scalars."""
    if isinstance(r, tuple):
        out = []
        for v in r:
            out.extend(flat(v))
        return out
    if r is None:
        return [None]
    if isinstance(r, (bool, np.bool_)):
        return [bool(r)]
    if hasattr(r, 'toarray'):
        r = r.toarray()
    a = np.asarray(r)
    if a.dtype == object:
        a = a.astype(float)
    return [np.squeeze(a)]


def same(a, b):
    fa, fb = flat(a), flat(b)
    if len(fa) != len(fb):
        return False
    for u, v in zip(fa, fb):
        if u is None or v is None or isinstance(u, bool) or isinstance(v, bool):
            if not (u is v or u == v):
                return False
            continue
        if u.shape != v.shape or not np.array_equal(u, v, equal_nan=(u.dtype.kind == 'f')):
            return False
    return True


def check_case(case):
    if case[0] == 'Cycles:queries':
        return check_queries(case)
    name, si, seed = case
    ent = [e for e in entries() if e['name'] == name][0]
    x = signals.fb_signal(SIGNALS[si], seed)
    prim = ent['prep'](x)
    viols = []
    trans = 0
    tag = '%s on F_B%r' % (name, SIGNALS[si])

    def call(arr, o, b=None):
        np.random.seed(11 + seed)
        with guard.watchdog(CALL_TIMEOUT):
            if b is None:
                return ent['fn'](arr, o)
            return ent['fn'](arr, o, b)

    optsets = ent['optdicts']() if ent['optdicts'] else [{}]
    with forkpool.installed(forkpool.SerialMP()):
        for oi in range(len(optsets)):
            ref = None
            for kind in ent['acc']:
                for ro in (False, True):
                    arr = lay(prim, kind)
                    before = arr.copy()
                    b = second_arg(name, x, kind)
                    b_before = None if b is None else b.copy()
                    o_before = copy.deepcopy((ent['optdicts']() if ent['optdicts'] else [{}])[oi])
                    if ro:
                        arr.setflags(write=False)
                        if b is not None:
                            b.setflags(write=False)
                    what = '%s options#%d layout=%s%s' % (tag, oi, arr.shape, ' read-only' if ro else '')
                    results = []
                    try:
                        for rep_i in range(2):
                            o = copy.deepcopy(o_before)
                            keep = o        # the dictionary object the routine receives
                            inner = o.get('__args__') if '__args__' in o else None
                            inner_before = copy.deepcopy(inner)
                            results.append(call(arr, o, b))
                            if '__args__' in o_before:
                                if not deep_equal(inner, inner_before):
                                    viols.append(('options-modified', '%s: sift_args changed from %r to %r' % (what, inner_before, inner)))
                            elif not deep_equal(keep, o_before):
                                viols.append(('options-modified', '%s: option dictionaries changed from %r to %r' % (what, o_before, keep)))
                    except guard.CaseTimeout:
                        viols.append(('accepted:timeout', '%s: no result within %ss' % (what, CALL_TIMEOUT)))
                        continue
                    except Exception as e:
                        k_ = 'accepted:readonly-raise' if ro else 'accepted:raise:%s' % ('vector' if kind == 'v' else kind)
                        viols.append((k_, '%s raised %r' % (what, e)))
                        continue
                    trans += 2
                    if not np.array_equal(arr, before, equal_nan=True):
                        viols.append(('input-modified', '%s: the input array was changed' % what))
                    if b is not None and not np.array_equal(b, b_before):
                        viols.append(('input-modified:second', '%s: the second input array was changed' % what))
                    if not same(results[0], results[1]):
                        viols.append(('not-repeatable', '%s: two identical calls returned different results' % what))
                    if ref is None:
                        ref = results[0]
                    elif not same(ref, results[0]):
                        viols.append(('layout-sensitive', '%s: result differs from layout %s' % (what, ent['acc'][0])))
        for kind in ent['rej']:
            arr = lay(prim, kind)
            what = '%s layout=%s' % (tag, arr.shape)
            o = copy.deepcopy(optsets[0])
            try:
                call(arr, o, second_arg(name, x, 'v'))
                viols.append(('rejected:processed:%s' % kind, '%s: multi-column input was processed instead of rejected' % what))
            except guard.CaseTimeout:
                viols.append(('rejected:hang:%s' % kind, '%s: call did not return within %ss' % (what, CALL_TIMEOUT)))
            except Exception:
                pass
            trans += 1
        if ent['mism'] and name in ('hilberthuang', 'phase_align', 'get_cycle_vector:mask', 'bin_by_phase') and si == 0:
            # larger scope: an off-by-one length mismatch must be rejected on long arrays too
            for nlong in (100000, 250001):
                xl = np.cos(np.arange(nlong) * 0.01)
                pl = ent['prep'](xl)
                bl = second_arg(name, xl, 'v')
                for bad in (bl[:-1], np.r_[bl, bl[:1]]):
                    what = '%s second argument length %d vs %d' % (tag, len(bad), nlong)
                    try:
                        with guard.watchdog(120):
                            call(pl.copy(), copy.deepcopy(optsets[0]), bad)
                        viols.append(('mismatch:processed:long', '%s: mismatched lengths were processed' % what))
                    except guard.CaseTimeout:
                        viols.append(('mismatch:hang', what))
                    except Exception:
                        pass
                    trans += 1
        if ent['mism']:
            for b in ent['mism'](x):
                what = '%s second argument length %d vs %d' % (tag, len(b), len(x))
                try:
                    call(lay(prim, 'v'), copy.deepcopy(optsets[0]), b)
                    viols.append(('mismatch:processed', '%s: mismatched lengths were processed' % what))
                except guard.CaseTimeout:
                    viols.append(('mismatch:hang', what))
                except Exception:
                    pass
                trans += 1
    viols = [('%s|%s' % (name, k_), m_) for k_, m_ in viols]
    return Outcome(cls='entry', transitions=trans, viols=viols, nontrivial=bool(ent['rej'] or ent['mism']))


def deep_equal(a, b):
    if isinstance(a, dict):
        return isinstance(b, dict) and a.keys() == b.keys() and all(deep_equal(a[k], b[k]) for k in a)
    if isinstance(a, np.ndarray) or isinstance(b, np.ndarray):
        return isinstance(a, np.ndarray) and isinstance(b, np.ndarray) and np.array_equal(a, b)
    if isinstance(a, (list, tuple)):
        return type(a) == type(b) and len(a) == len(b) and all(deep_equal(u, v) for u, v in zip(a, b))
    return a == b


def nonvacuity(rep, ctx):
    if rep.evaluations < len(entry_names()) * bounds(ctx.tier)['signals']:
        return ['not every entry point was exercised']
    return []
