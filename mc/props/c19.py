"""C19 - array inputs are layout-insensitive, validated and never modified.

Space (explorer I over "programs" = entry points): every public numeric entry point x the layouts its documented
contract accepts or rejects x {writable, read-only} arrays x option dictionaries reused across two calls x signals.
Oracle: accepted layouts give identical results; rejected layouts / mismatched lengths raise within the watchdog;
inputs and option dictionaries are byte-identical / deep-equal afterwards; a repeated call returns identical bytes.
"""
import copy
import numpy as np

from ..engine.explore import Outcome
from ..engine import forkpool, guard
from . import signals

PID = 'C19'
TIMEOUT = 180.0
CALL_TIMEOUT = 15.0
RULE = ('every (entry point, signal) pair; per pair: all accepted layouts (writable and read-only, called twice), all '
        'rejected layouts, all length mismatches; non-trivial = entry point has both accepted and rejected inputs')
ASSUMPTIONS = ['the accepted / rejected layout sets are those of the property text: (n,), (n,1), (n,1,1) vs (n,2), (1,n), '
               '(n,2,3) for the single-signal sift routines; vector vs single column for transforms, envelope and cycle '
               'routines; equal vs shorter / longer second argument for multi-array routines',
               'results of different accepted layouts are compared after squeezing singleton axes',
               'worker pools are replaced by the in-process serial pool; the RNG is reseeded before stochastic calls']

SIGNALS = [('tone', 32, 2, 'lin', 'none'), ('noise', 64, 1, 'none', 'none'), ('tone', 64, 3, 'none', 'am')]


def lay(x, kind):
    if kind == 'v':
        return x.copy()
    if kind == 'c':
        return x[:, None].copy()
    if kind == 'c11':
        return x[:, None, None].copy()
    if kind == 'n2':
        return np.c_[x, x[::-1]].copy()
    if kind == 'row':
        return x[None, :].copy()
    if kind == 'n23':
        return np.tile(x[:, None, None], (1, 2, 3)).copy()
    raise KeyError(kind)


SIFT_ACC = ('v', 'c', 'c11')
SIFT_REJ = ('n2', 'row', 'n23')
VC = ('v', 'c')


def phase_of(x):
    n = len(x)
    return np.mod(2 * np.pi * 5.3 * np.arange(n) / n + 0.2, 2 * np.pi)


def opts():
    return dict(imf_opts={'env_step_size': 0.5, 'sd_thresh': 0.2},
                envelope_opts={'interp_method': 'pchip'},
                extrema_opts={'pad_width': 3, 'loc_pad_opts': {'mode': 'reflect', 'reflect_type': 'odd'},
                              'mag_pad_opts': {'mode': 'median', 'stat_length': 1}})


def entries():
    import emd
    S, SP, CY, U = emd.sift, emd.spectra, emd.cycles, emd.utils
    E = []

    def add(name, fn, acc, rej=(), mism=None, optdicts=None):
        E.append(dict(name=name, fn=fn, acc=acc, rej=rej, mism=mism, optdicts=optdicts))
    # single-signal sift routines: fn(primary array, option dicts) -> result
    add('sift', lambda a, o: S.sift(a, max_imfs=3, **o), SIFT_ACC, SIFT_REJ, optdicts=opts)
    add('get_next_imf', lambda a, o: S.get_next_imf(a, envelope_opts=o['envelope_opts'], extrema_opts=o['extrema_opts'], **o['imf_opts']),
        SIFT_ACC, SIFT_REJ, optdicts=opts)
    add('get_next_imf_mask', lambda a, o: S.get_next_imf_mask(a, 0.2, 0.5, nphases=2, **o), SIFT_ACC, SIFT_REJ, optdicts=opts)
    add('mask_sift', lambda a, o: S.mask_sift(a, max_imfs=2, nphases=2, **o), SIFT_ACC, SIFT_REJ, optdicts=opts)
    add('ensemble_sift', lambda a, o: S.ensemble_sift(a, nensembles=2, max_imfs=2, **o), SIFT_ACC, SIFT_REJ, optdicts=opts)
    add('complete_ensemble_sift', lambda a, o: S.complete_ensemble_sift(a, nensembles=2, max_imfs=2, **o), SIFT_ACC, SIFT_REJ, optdicts=opts)
    # second layer: IA is [samples x imfs]; a vector is one IMF
    add('sift_second_layer', lambda a, o: S.sift_second_layer(np.abs(a) + 0.1, sift_args=o), VC,
        optdicts=lambda: dict(max_imfs=2, imf_opts={'sd_thresh': 0.2}, extrema_opts={'pad_width': 1, 'mag_pad_opts': {'mode': 'median', 'stat_length': 1}}))
    add('mask_sift_second_layer', lambda a, o: S.mask_sift_second_layer(np.abs(a) + 0.1, np.array([0.2, 0.1, 0.05]), sift_args=o), VC,
        optdicts=lambda: dict(nphases=2, imf_opts={'sd_thresh': 0.2}))
    add('mask_sift_second_layer:noargs', lambda a, o: S.mask_sift_second_layer(np.abs(a) + 0.1, np.array([0.2, 0.1, 0.05])), VC)
    # envelope / extrema routines
    add('get_padded_extrema', lambda a, o: S.get_padded_extrema(a, **o), VC,
        optdicts=lambda: dict(pad_width=2, loc_pad_opts={'mode': 'reflect', 'reflect_type': 'odd'}, mag_pad_opts={'mode': 'median', 'stat_length': 1}))
    add('interp_envelope', lambda a, o: S.interp_envelope(a, mode='upper', extrema_opts=o), VC,
        optdicts=lambda: dict(pad_width=2, mag_pad_opts={'mode': 'median', 'stat_length': 1}))
    # transforms
    for m in ('hilbert', 'nht', 'quad'):
        add('frequency_transform:%s' % m, (lambda m_: lambda a, o: SP.frequency_transform(a, 100.0, m_))(m), VC)
    add('amplitude_normalise', lambda a, o: U.amplitude_normalise(a), VC)
    # spectra (second argument must match)
    edges = np.linspace(0, 0.5, 6)
    add('hilberthuang', lambda a, o, b=None: SP.hilberthuang(np.abs(a) * 0.4, np.abs(a) + 1 if b is None else b, edges), VC,
        mism=lambda x: [np.abs(x[:-1]) + 1, np.abs(np.r_[x, x[:2]]) + 1])
    add('hilberthuang_1d', lambda a, o, b=None: SP.hilberthuang_1d(np.abs(a) * 0.4, np.abs(a) + 1 if b is None else b, edges), VC,
        mism=lambda x: [(np.abs(x[:-1]) + 1)[:, None], (np.abs(np.r_[x, x[:2]]) + 1)[:, None]])
    add('holospectrum', lambda a, o, b=None: SP.holospectrum(np.abs(a) * 0.4, (np.abs(a).reshape(len(a), 1, 1) * 0.2),
                                                            (np.abs(a).reshape(len(a), 1, 1) + 1) if b is None else b, edges, edges), VC,
        mism=lambda x: [np.abs(x[:-1]).reshape(-1, 1, 1) + 1, np.abs(np.r_[x, x[:2]]).reshape(-1, 1, 1) + 1])
    # cycle routines operate on a phase series
    add('get_cycle_vector', lambda a, o: CY.get_cycle_vector(phase_of(a[:, 0] if a.ndim > 1 else a).reshape(a.shape), return_good=False), VC)
    add('get_cycle_vector:mask', lambda a, o, b=None: CY.get_cycle_vector(phase_of(a[:, 0] if a.ndim > 1 else a).reshape(a.shape),
                                                                        return_good=True, mask=(np.ones(a.shape, dtype=bool) if b is None else b)), VC,
        mism=lambda x: [np.ones(len(x) - 1, dtype=bool), np.ones(len(x) + 2, dtype=bool)])
    labels = lambda n: (np.arange(n) // 5) % 6  # noqa: E731
    add('get_cycle_stat', lambda a, o, b=None: CY.get_cycle_stat(np.repeat(np.arange(len(a) // 4 + 1), 4)[:len(a)] if b is None else b, a, func=np.max), VC,
        mism=lambda x: [np.repeat(np.arange(len(x)), 4)[:len(x) - 1], np.repeat(np.arange(len(x)), 4)[:len(x) + 2]])
    add('phase_align', lambda a, o, b=None: CY.phase_align(phase_of(a[:, 0] if a.ndim > 1 else a).reshape(a.shape), a if b is None else b, npoints=8), VC,
        mism=lambda x: [x[:-1].copy(), np.r_[x, x[:2]]])
    add('bin_by_phase', lambda a, o, b=None: CY.bin_by_phase(phase_of(a[:, 0] if a.ndim > 1 else a).reshape(a.shape),
                                                             (a[:, 0] if a.ndim > 1 else a) if b is None else b, nbins=6)[0], VC,
        mism=lambda x: [x[:-1].copy(), np.r_[x, x[:2]]])
    add('Cycles', lambda a, o: CY.Cycles(phase_of(a[:, 0] if a.ndim > 1 else a).reshape(a.shape), compute_timings=True).get_metric_dataframe().to_numpy(),
        VC, rej=('n2',))
    return E


def entry_names():
    return ['sift', 'get_next_imf', 'get_next_imf_mask', 'mask_sift', 'ensemble_sift', 'complete_ensemble_sift',
            'sift_second_layer', 'mask_sift_second_layer', 'mask_sift_second_layer:noargs', 'get_padded_extrema',
            'interp_envelope', 'frequency_transform:hilbert', 'frequency_transform:nht', 'frequency_transform:quad',
            'amplitude_normalise', 'hilberthuang', 'hilberthuang_1d', 'holospectrum', 'get_cycle_vector',
            'get_cycle_vector:mask', 'get_cycle_stat', 'phase_align', 'bin_by_phase', 'Cycles']


def bounds(tier):
    return {'signals': 2 if tier == 'quick' else 3}


def cases(tier, seed):
    for si in range(bounds(tier)['signals']):
        for name in entry_names():
            yield (name, si, seed)


def flat(r):
    """Comparable form of a result: list of squeezed arrays / scalars."""
    if isinstance(r, tuple):
        out = []
        for v in r:
            out.extend(flat(v))
        return out
    if r is None:
        return [None]
    if isinstance(r, (bool, np.bool_)):
        return [bool(r)]
    if hasattr(r, 'toarray'):
        r = r.toarray()
    a = np.asarray(r)
    if a.dtype == object:
        a = a.astype(float)
    return [np.squeeze(a)]


def same(a, b):
    fa, fb = flat(a), flat(b)
    if len(fa) != len(fb):
        return False
    for u, v in zip(fa, fb):
        if u is None or v is None or isinstance(u, bool) or isinstance(v, bool):
            if not (u is v or u == v):
                return False
            continue
        if u.shape != v.shape or not np.array_equal(u, v, equal_nan=(u.dtype.kind == 'f')):
            return False
    return True


def check_case(case):
    name, si, seed = case
    ent = [e for e in entries() if e['name'] == name][0]
    x = signals.fb_signal(SIGNALS[si], seed)
    viols = []
    trans = 0
    tag = '%s on F_B%r' % (name, SIGNALS[si])

    def call(arr, o, b=None):
        np.random.seed(11 + seed)
        with guard.watchdog(CALL_TIMEOUT):
            if b is None:
                return ent['fn'](arr, o)
            return ent['fn'](arr, o, b)

    ref = None
    with forkpool.installed(forkpool.SerialMP()):
        for kind in ent['acc']:
            for ro in (False, True):
                arr = lay(x, kind)
                before = arr.copy()
                o = ent['optdicts']() if ent['optdicts'] else {}
                o_before = copy.deepcopy(o)
                if ro:
                    arr.setflags(write=False)
                what = '%s layout=%s%s' % (tag, arr.shape, ' read-only' if ro else '')
                try:
                    r1 = call(arr, o)
                    r2 = call(arr, o)
                except guard.CaseTimeout:
                    viols.append(('accepted:timeout', '%s: no result within %ss' % (what, CALL_TIMEOUT)))
                    continue
                except Exception as e:
                    k_ = 'accepted:readonly-raise' if ro else 'accepted:raise:%s' % ('vector' if kind == 'v' else kind)
                    viols.append((k_, '%s raised %r' % (what, e)))
                    continue
                trans += 2
                if not np.array_equal(arr, before):
                    viols.append(('input-modified', '%s: the input array was changed' % what))
                if not deep_equal(o, o_before):
                    viols.append(('options-modified', '%s: option dictionaries changed from %r to %r' % (what, o_before, o)))
                if not same(r1, r2):
                    viols.append(('not-repeatable', '%s: two identical calls returned different results' % what))
                if ref is None:
                    ref = r1
                elif not same(ref, r1):
                    viols.append(('layout-sensitive', '%s: result differs from layout %s' % (what, ent['acc'][0])))
        for kind in ent['rej']:
            arr = lay(x, kind)
            what = '%s layout=%s' % (tag, arr.shape)
            o = ent['optdicts']() if ent['optdicts'] else {}
            try:
                call(arr, o)
                viols.append(('rejected:processed:%s' % kind, '%s: multi-column input was processed instead of rejected' % what))
            except guard.CaseTimeout:
                viols.append(('rejected:hang:%s' % kind, '%s: call did not return within %ss' % (what, CALL_TIMEOUT)))
            except Exception:
                pass
            trans += 1
        if ent['mism']:
            for b in ent['mism'](x):
                what = '%s second argument length %d vs %d' % (tag, len(b), len(x))
                try:
                    call(lay(x, 'c') if name in ('hilberthuang_1d',) else lay(x, 'v'), {}, b)
                    viols.append(('mismatch:processed', '%s: mismatched lengths were processed' % what))
                except guard.CaseTimeout:
                    viols.append(('mismatch:hang', what))
                except Exception:
                    pass
                trans += 1
    viols = [('%s|%s' % (name, k_), m_) for k_, m_ in viols]
    return Outcome(cls='entry', transitions=trans, viols=viols, nontrivial=bool(ent['rej'] or ent['mism']))


def deep_equal(a, b):
    if isinstance(a, dict):
        return isinstance(b, dict) and a.keys() == b.keys() and all(deep_equal(a[k], b[k]) for k in a)
    if isinstance(a, np.ndarray) or isinstance(b, np.ndarray):
        return isinstance(a, np.ndarray) and isinstance(b, np.ndarray) and np.array_equal(a, b)
    if isinstance(a, (list, tuple)):
        return type(a) == type(b) and len(a) == len(b) and all(deep_equal(u, v) for u, v in zip(a, b))
    return a == b


def nonvacuity(rep, ctx):
    if rep.evaluations < len(entry_names()) * bounds(ctx.tier)['signals']:
        return ['not every entry point was exercised']
    return []
