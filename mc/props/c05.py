"""C05 - extrema are exact and envelopes interpolate them on the sample grid.

Space (explorer I): every sequence of length 1..L over a 3-level alphabet, plus the structured family F_B,
x pad_width 0..5 x parabolic refinement {off,on} x {splrep, pchip, mono_pchip} x {upper, lower, combined}.
Reference: own strict-extremum finder, own implementation of the padding rule, interpolant rebuilt with scipy from the
reference extrema and evaluated at 0..N-1.
"""
import numpy as np

from ..engine.explore import Outcome, Refill, Holder

_refill = Refill()
_holder = Holder(depth=3)
from . import signals

PID = 'C05'
TIMEOUT = 300.0
RULE = ('every 3-level sequence of length 1..L and every F_B signal; per signal 36 get_padded_extrema calls (6 pad '
        'widths x parabolic x 3 modes) and 90 interp_envelope calls (5 pad widths x parabolic x 3 methods x 3 modes); '
        'non-trivial = the signal has >= 2 extrema of some kind')
ASSUMPTIONS = ['padding rule re-implemented from the docstring: odd reflection of locations about the outermost entries, '
               'edge magnitude repeated, repeated until both record ends are covered (exact when pad_width < #extrema, '
               'structural invariants when pad_width is clipped to #extrema)',
               'pad_width=0 is exercised for the extrema routine only']

MODES = (('upper', 'peaks'), ('lower', 'troughs'), ('combined', 'abs_peaks'))
METHODS = ('splrep', 'pchip', 'mono_pchip')


def bounds(tier):
    return {'max_len': 8 if tier == 'quick' else 10, 'fb_sizes': (32, 64) if tier == 'quick' else (32, 64, 200)}


def cases(tier, seed):
    b = bounds(tier)
    for idx in signals.fa_indices(3, 1, b['max_len']):
        yield ('fa', idx, seed)
    for name in signals.fb_names(b['fb_sizes']):
        yield ('fb', name, seed)
    # larger scope: long records whose extrema are clustered at one end (the re-padding loop has to run hundreds of
    # times), or that hold many hundreds of extrema (block sizes, counters)
    for n in (300, 600, 1200, 2600):
        for where in ('left', 'right'):
            yield ('cluster', (n, where), seed)
    for n in (700, 2100):
        yield ('dense', (n,), seed)
    # tiny-amplitude copies (x 2^-30): absolute guards inside the refinement / padding would show here
    for idx in signals.fa_indices(3, 5, min(b['max_len'], 7)):
        yield ('fa-tiny', idx, seed)
    # custom np.pad options for the magnitudes, on short and on extrema-rich records
    for name in signals.fb_names((32,))[:10]:
        yield ('padopts', ('fb', name), seed)
    for n in (700, 2100):
        yield ('padopts', ('dense', n), seed)
    # integer-typed copies of the short sequences (levels 0, 1, 2 stored as int64 / int16)
    for idx in signals.fa_indices(3, 3, min(b['max_len'], 7)):
        yield ('fa-int', idx, seed)


def decode_case(c):
    return (c[0], tuple(c[1]), c[2])


def signature(kind, case):
    return kind


def signal_of(case):
    if case[0] == 'fa':
        return signals.fa_signal(case[1], 3, case[2])
    if case[0] == 'fa-int':
        return np.array(case[1], dtype=np.int64 if case[2] % 2 == 0 else np.int16)
    if case[0] == 'fa-tiny':
        return signals.fa_signal(case[1], 3, case[2]) * 2.0 ** -30
    if case[0] == 'padopts':
        kind, what = case[1]
        if kind == 'fb':
            return signals.fb_signal(what, case[2])
        return signal_of(('dense', (what,), case[2]))
    if case[0] == 'cluster':
        n, where = case[1]
        x = np.linspace(0.0, 3.0, n)
        bump = np.array([0.0, 0.9, -0.4, 1.1, -0.5, 0.8, -0.3, 0.2])
        pos = 2 if where == 'left' else n - 2 - len(bump)
        x[pos:pos + len(bump)] += bump
        return x
    if case[0] == 'dense':
        n = case[1][0]
        t = np.arange(n)
        return np.where(t % 2 == 0, 1.0, -1.0) * (1 + 0.3 * np.sin(t / 37.0)) + 0.001 * t
    return signals.fb_signal(case[1], case[2])


def ref_extrema(x, mode, parabolic):
    if mode == 'peaks':
        y = x
    elif mode == 'troughs':
        y = -x
    else:
        y = np.abs(x)
    locs = [i for i in range(1, len(y) - 1) if y[i - 1] < y[i] > y[i + 1]]
    if not parabolic:
        L = np.array(locs, dtype=float)
        M = y[locs] if locs else np.array([])
    else:
        L, M = [], []
        for i in locs:
            y0, y1, y2 = y[i - 1], y[i], y[i + 1]
            a = (y0 + y2) / 2 - y1
            b = (y2 - y0) / 2
            L.append(i - b / (2 * a))
            M.append(y1 - b * b / (4 * a))
        L, M = np.array(L, dtype=float), np.array(M, dtype=float)
    if mode == 'troughs':
        M = -M
    return L, np.asarray(M, dtype=float)


def ref_pad(L, M, p, N):
    """Exact padding rule for p <= len(L)-1."""
    L, M = list(L), list(M)
    while True:
        left = [2 * L[0] - L[k] for k in range(p, 0, -1)]
        right = [2 * L[-1] - L[-1 - k] for k in range(1, p + 1)]
        L = left + L + right
        M = [M[0]] * p + M + [M[-1]] * p
        if not (max(L) <= N - 1 or min(L) >= 0):      # both edges covered: something before sample 0 and after sample N-1
            return np.array(L), np.array(M)


def close(a, b, tol=1e-9, mag=False):
    """Locations are compared to 1e-9 absolute (they are sample indices); magnitudes relative to their own size, so
    that tiny- and huge-amplitude signals are judged as strictly as unit ones."""
    a = np.asarray(a, dtype=float)
    b = np.asarray(b, dtype=float)
    if a.shape != b.shape:
        return False
    atol = tol * (float(np.max(np.abs(b))) if (mag and b.size) else 1.0)
    return np.allclose(a, b, rtol=tol, atol=atol)


def check_extrema_result(x, L0, M0, locs, mags, pad, parabolic):
    """Return None or a (kind, detail) describing what is wrong with a padded-extrema result."""
    N = len(x)
    n = len(L0)
    if n < 2:
        return None if (locs is None and mags is None) else ('extrema:not-none', 'expected (None, None)')
    if locs is None:
        return ('extrema:none', 'returned None although %d extrema exist' % n)
    locs = np.asarray(locs, dtype=float)
    mags = np.asarray(mags, dtype=float)
    if locs.shape != mags.shape or locs.ndim != 1:
        return ('extrema:shape', 'locs %r mags %r' % (locs.shape, mags.shape))
    if pad == 0:
        if not (close(locs, L0) and close(mags, M0, mag=True)):
            return ('extrema:interior', 'unpadded result differs from the strict extrema')
        if not parabolic and not (np.array_equal(locs, L0) and np.array_equal(mags, M0)):
            return ('extrema:interior-exact', 'unrefined extrema must be bit-equal')
        return None
    if not np.all(np.diff(locs) > 0):
        return ('extrema:order', 'padded locations not strictly increasing: %s' % locs.tolist())
    p = min(pad, n)
    extra = len(locs) - n
    if extra <= 0 or extra % (2 * p) != 0:
        return ('extrema:count', '%d padded entries for pad %d and %d extrema' % (len(locs), p, n))
    off = extra // 2
    blockL, blockM = locs[off:off + n], mags[off:off + n]
    if not (close(blockL, L0) and close(blockM, M0, mag=True)):
        return ('extrema:interior', 'interior block altered: %s vs %s' % (blockL.tolist(), L0.tolist()))
    if not parabolic and not (np.array_equal(blockL, L0) and np.array_equal(blockM, M0)):
        return ('extrema:interior-exact', 'unrefined extrema must be bit-equal')
    if not (locs[0] < 0 and locs[-1] > N - 1):
        # "beyond both ends": something strictly before the first sample (index 0) and strictly after the last (N-1)
        return ('extrema:coverage', 'padded locations [%g, %g] do not reach beyond samples 0 and %d' % (locs[0], locs[-1], N - 1))
    if not (np.all(mags[:off] == mags[off]) and np.all(mags[off + n:] == mags[off + n - 1])):
        return ('extrema:pad-mags', 'pad magnitudes are not the edge magnitude: %s' % mags.tolist())
    if p <= n - 1:
        # reflect the block as returned (already shown to equal the reference extrema to 1e-9): whether another padding
        # round is needed is decided at exactly 0 / N, so the reference must see the same last-bit values
        RL, RM = ref_pad(blockL, blockM, p, N)
        if not (close(locs, RL) and close(mags, RM, mag=True)):
            return ('extrema:mirror', 'padding differs from odd reflection: %s vs %s' % (locs.tolist(), RL.tolist()))
    else:
        # first ring must still be the mirror image about the outermost extrema
        k = n - 1
        if not (close(locs[off - k:off], [2 * L0[0] - L0[j] for j in range(k, 0, -1)]) and
                close(locs[off + n:off + n + k], [2 * L0[-1] - L0[-1 - j] for j in range(1, k + 1)])):
            return ('extrema:mirror', 'first ring is not the odd reflection: %s' % locs.tolist())
    return None


def ref_envelope(locs, mags, method, N):
    from scipy import interpolate as interp
    t = np.arange(N)
    if method == 'splrep':
        return interp.splev(t, interp.splrep(locs, mags))
    return interp.PchipInterpolator(locs, mags)(t)


PADOPTS = [{'mode': 'mean'}, {'mode': 'maximum', 'stat_length': 2}, {'mode': 'edge'}, {'mode': 'median'}, {'mode': 'mean', 'stat_length': 300}]


def check_padopts(case):
    """Custom mag_pad_opts: 'padding is carried out using numpy.pad' on the whole vector of extrema."""
    from emd.sift import get_padded_extrema
    x = np.asarray(signal_of(case), dtype=float)
    N = len(x)
    viols = []
    trans = 0
    for xmode in ('peaks', 'troughs'):
        L0, M0 = ref_extrema(x, xmode, False)
        if len(L0) < 2:
            continue
        for pad in (1, 3):
            for po in PADOPTS:
                opts = dict(po)
                mode = opts.pop('mode')
                p = min(pad, len(L0))
                RL, RM = L0.copy(), M0.copy()
                while True:
                    RL = np.pad(RL, p, 'reflect', reflect_type='odd')
                    RM = np.pad(RM, p, mode, **opts)
                    if not (RL.max() < N or RL.min() >= 0):
                        break
                try:
                    locs, mags = get_padded_extrema(x.copy(), pad_width=pad, mode=xmode, mag_pad_opts=dict(po))
                except Exception as e:
                    viols.append(('padopts:raise:%s' % type(e).__name__, '%s%r mode=%s pad=%d mag_pad_opts=%r raised %r' % (case[1][0], case[1][1], xmode, pad, po, e)))
                    continue
                trans += 1
                if not (close(locs, RL) and close(mags, RM, mag=True)):
                    viols.append(('padopts:value', '%s%r (%d extrema) mode=%s pad=%d mag_pad_opts=%r: padded magnitudes differ from numpy.pad over the whole vector' % (
                        case[1][0], case[1][1], len(L0), xmode, pad, po)))
    return Outcome(cls='padopts', transitions=trans, viols=viols, nontrivial=True)


def check_case(case):
    from emd.sift import get_padded_extrema, interp_envelope
    if case[0] == 'padopts':
        return check_padopts(case)
    x_in = signal_of(case)
    x = np.asarray(x_in, dtype=float)       # the reference works on the values; the library gets the array as typed
    N = len(x)
    viols = []
    trans = 0
    nontriv = False
    d = 'x=%s%s' % (x.tolist() if N <= 12 else '%s%r' % (case[0], case[1]), '' if x_in.dtype == float else ' (dtype %s)' % x_in.dtype)
    for parabolic in (False, True):
        for emode, xmode in MODES:
            L0, M0 = ref_extrema(x, xmode, parabolic)
            nontriv = nontriv or len(L0) >= 2
            for pad in range(0, 6):
                tag = '%s mode=%s pad_width=%d parabolic=%s' % (d, xmode, pad, parabolic)
                # a caller-owned buffer, used twice in a row with different contents (previous contents first)
                xin = _refill.primed(x_in, 'x', lambda b_: get_padded_extrema(b_, pad_width=pad, mode=xmode, parabolic_extrema=parabolic))
                try:
                    locs, mags = get_padded_extrema(xin, pad_width=pad, mode=xmode, parabolic_extrema=parabolic)
                except Exception as e:
                    viols.append(('extrema:raise:%s' % type(e).__name__, '%s raised %r' % (tag, e)))
                    continue
                trans += 1
                if not np.array_equal(xin, x_in):
                    viols.append(('extrema:input-modified', '%s: the signal array was changed' % tag))
                for m_ in _holder.swap((locs, mags), 'get_padded_extrema ' + tag):
                    viols.append(('earlier-result-changed', m_))
                if pad in (0, 2) and N >= 3:
                    # the same samples as a strided view (one column of a two-column array, every second sample of a
                    # longer one): the memory layout of the input is not part of the question
                    for vname, view in (('column view', np.c_[x_in, x_in[::-1]][:, 0]), ('every-second-sample view', np.repeat(x_in, 2)[::2])):
                        try:
                            l2, m2 = get_padded_extrema(view, pad_width=pad, mode=xmode, parabolic_extrema=parabolic)
                            same_ = (l2 is None and locs is None) or (l2 is not None and locs is not None and
                                                                      np.array_equal(np.asarray(l2), np.asarray(locs)) and np.array_equal(np.asarray(m2), np.asarray(mags)))
                            if not same_:
                                viols.append(('extrema:layout' + (':parabolic' if parabolic else ''), '%s: a %s of the same samples gives other extrema' % (tag, vname)))
                        except Exception as e:
                            viols.append(('extrema:layout:raise:%s' % type(e).__name__, '%s: a %s raised %r' % (tag, vname, e)))
                bad = check_extrema_result(x, L0, M0, locs, mags, pad, parabolic)
                if bad:
                    viols.append((bad[0] + (':parabolic' if parabolic else ''), '%s: %s' % (tag, bad[1])))
                    continue
                if pad == 0:
                    continue
                for method in METHODS:
                    tag2 = '%s interp=%s' % (tag, method)
                    opts = {'pad_width': pad, 'parabolic_extrema': parabolic}
                    try:
                        res = interp_envelope(x_in.copy(), mode=emode, interp_method=method, extrema_opts=opts, ret_extrema=True)
                    except Exception as e:
                        viols.append(('envelope:raise:%s' % type(e).__name__ + (':parabolic' if parabolic else ''), '%s raised %r' % (tag2, e)))
                        continue
                    trans += 1
                    if len(L0) < 2:
                        if res is not None:
                            viols.append(('envelope:not-none', '%s: expected None' % tag2))
                        continue
                    if res is None:
                        viols.append(('envelope:none', '%s: returned None' % tag2))
                        continue
                    for m_ in _holder.swap(res, 'interp_envelope ' + tag2):
                        viols.append(('earlier-result-changed', m_))
                    env, (el, em) = res
                    env = np.asarray(env, dtype=float)
                    if not (close(el, locs) and close(em, mags, mag=True)):
                        viols.append(('envelope:extrema', '%s: ret_extrema differs from get_padded_extrema' % tag2))
                        continue
                    if env.shape != (N,):
                        viols.append(('envelope:length', '%s: envelope shape %r for %d samples' % (tag2, env.shape, N)))
                        continue
                    want = ref_envelope(np.asarray(locs, dtype=float), np.asarray(mags, dtype=float), method, N)
                    scale = np.max(np.abs(M0))
                    err = np.max(np.abs(env - want))
                    if not err <= 1e-10 * scale:
                        viols.append(('envelope:grid' + (':parabolic' if parabolic else ''),
                                      '%s: envelope differs from the interpolant at sample indices by %.3g' % (tag2, err)))
                        continue
                    if not parabolic:
                        idx = L0.astype(int)
                        tgt = x[idx] if xmode != 'abs_peaks' else np.abs(x[idx])
                        if not np.max(np.abs(env[idx] - tgt)) <= 1e-9 * scale:
                            viols.append(('envelope:through-extrema', '%s: envelope misses its extrema' % tag2))
    return Outcome(cls='few-extrema' if not nontriv else 'extrema', transitions=trans, viols=viols, nontrivial=nontriv)


def snippet(case, kind):
    x = signal_of(case)
    if len(x) > 12:
        return None
    return ('import numpy as np, emd\nx = np.array(%r)\n'
            'env, (locs, mags) = emd.sift.interp_envelope(x, mode="upper", extrema_opts={"pad_width": 2, "parabolic_extrema": True}, ret_extrema=True)\n'
            'from scipy import interpolate\n'
            'print(env - interpolate.splev(np.arange(len(x)), interpolate.splrep(locs, mags)))  # must be ~0\n' % (x.tolist(),))


def nonvacuity(rep, ctx):
    if not {'few-extrema', 'extrema', 'padopts'} <= set(rep.classes):
        return ['vacuous: outcome classes %r' % dict(rep.classes)]
    return []
