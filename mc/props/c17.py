"""C17 - feature matching returns a valid one-to-one pairing.

Space (explorer I): every pair (x, y) of one-feature arrays with <= R rows over {0..4} (all row orders, all ties),
every pair of two-feature arrays with <= 3 rows over {0,1}^2, x K in {1,2,3,4,15} x bound in {inf, 1.5, 0.5};
plus a fixed grid of larger permuted instances.  Oracle: invariants only (no expected matching).
"""
import itertools
import numpy as np

from ..engine.explore import Outcome, Refill, Holder

_refill = Refill()
_holder = Holder()

PID = 'C17'
TIMEOUT = 20.0
RULE = ('all pairs of 1-feature arrays with 1..R rows over a 5-value alphabet and all pairs of 2-feature arrays with '
        '1..3 rows over {0,1}^2, each x 5 K values x 4 bounds incl. the bound 0 (20 calls per case), the 1-feature family again on a 0.1-grid with bound 1.0 / 0.1 and on a 1.7e9 offset, plus 72 larger permuted instances; '
        'non-trivial = at least one pair matched and at least one x row left unmatched in some call')
ASSUMPTIONS = ['distances recomputed with numpy; 1e-12 slack on K-NN membership and bound comparisons']

KS = (1, 2, 3, 4, 15)
BOUNDS = (np.inf, 1.5, 0.5, 0.0)     # 0.0: a legal bound (nothing is strictly closer than 0 - every row is omitted)
LEVELS = [(0, 1, 2, 3, 4), (0.5, 1.5, 2.5, 3.5, 4.5), (-2, -1, 0, 1, 2)]


def bounds(tier):
    return {'rows_1d': 3 if tier == 'quick' else 4, 'rows_2d': 3}


def arrays_1d(R):
    for n in range(1, R + 1):
        for s in itertools.product(range(5), repeat=n):
            yield s


def arrays_2d(R):
    pts = list(itertools.product((0, 1), repeat=2))
    for n in range(1, R + 1):
        for s in itertools.product(range(4), repeat=n):
            yield s


def cases(tier, seed):
    b = bounds(tier)
    for x in arrays_1d(b['rows_1d']):
        for y in arrays_1d(b['rows_1d']):
            yield ('1d', x, y, seed)
    for x in arrays_2d(b['rows_2d']):
        for y in arrays_2d(b['rows_2d']):
            yield ('2d', x, y, seed)
    # mixed dtypes: non-integer float x against integer-typed y (and the reverse)
    for x in arrays_1d(min(b['rows_1d'], 3)):
        for y in arrays_1d(min(b['rows_1d'], 3)):
            yield ('1d-mixed', x, y, seed)
    # distances one rounding step either side of the bound (a 0.1-grid: 1.4 - 0.4 = 0.9999999999999999, 1.3 - 0.3 = 1.0)
    for x in arrays_1d(3):
        for y in arrays_1d(3):
            yield ('1d-grid', x, y, seed)
    # a large common offset (time stamps: 1.7e9 + seconds), where squared-norm expansions of the distance cancel
    for x in arrays_1d(3):
        for y in arrays_1d(3):
            yield ('1d-offset', x, y, seed)
    for nx, ny in ((50, 50), (50, 200), (120, 60), (129, 140), (300, 300), (600, 257)):
        for nf in (1, 2, 3, 4):
            for px, py in ((1, 1), (7, 1), (1, 11), (7, 11), (13, 3), (3, 17)):
                yield ('big', (nx, ny, nf), (px, py), seed)


def decode_case(c):
    return tuple(tuple(x) if isinstance(x, list) else x for x in c)


def build(case):
    kind, a, b, seed = case
    if kind == '1d':
        lv = np.array(LEVELS[seed % len(LEVELS)], dtype=float)
        return lv[list(a)], lv[list(b)]
    if kind == '1d-grid':
        lv = np.array((0.4, 1.4, 2.4, 0.3, 1.3))
        return lv[list(a)], lv[list(b)]
    if kind == '1d-offset':
        lv = 1.7e9 + np.array(LEVELS[seed % len(LEVELS)], dtype=float) * (1.0, 3.0, 7.0)[seed % 3]
        return lv[list(a)], lv[list(b)] + 0.0
    if kind == '1d-mixed':
        xf = np.array((0.4, 0.9, 2.1, 2.9, 3.6))[list(a)]
        yi = np.array((0, 1, 2, 3, 10), dtype=np.int64)[list(b)]
        return (xf, yi) if seed % 2 == 0 else (yi.copy(), xf.copy())
    if kind == '2d':
        pts = np.array(list(itertools.product((0.0, 1.0), repeat=2)))
        return pts[list(a)], pts[list(b)]
    nx, ny, nf = a
    px, py = b

    def perm(n, p):
        # stride permutation (p coprime with n is not required: add offset sweep)
        idx = [(i * p + (i * p) // n) % n for i in range(n)]
        seen, out = set(), []
        for i in idx + list(range(n)):
            if i not in seen:
                seen.add(i)
                out.append(i)
        return np.array(out)
    x = np.linspace(0, 1, nx)[perm(nx, px)]
    y = np.linspace(0, 1, ny)[perm(ny, py)]
    if nf == 1:
        return x, y
    X = np.c_[tuple(np.roll(x, k * 3) * (k + 1) for k in range(nf))]
    Y = np.c_[tuple(np.roll(y, k * 3) * (k + 1) for k in range(nf))]
    return X, Y


def check_case(case):
    from emd.cycles import kdt_match
    x, y = build(case)
    X = (x[:, None] if x.ndim == 1 else x).astype(float)
    Y = (y[:, None] if y.ndim == 1 else y).astype(float)
    D = np.sqrt(((X[:, None, :] - Y[None, :, :]) ** 2).sum(axis=2))
    viols = []
    trans = 0
    anymatch = False
    anyunmatched = False
    d = describe(case, x, y)
    ks = KS if case[0] != 'big' else (1, 2, 5, 15)
    for K in ks:
        for bound in ((1.0, 0.1, 0) if case[0] == '1d-grid' else BOUNDS) if case[0] != 'big' else (np.inf, 0.3, 0.02):
            try:
                # (two consecutive calls on one object with different contents: once per case is enough)
                x_in = _refill.primed(x, 'x', lambda b_: kdt_match(b_, y.copy(), K=K, distance_upper_bound=bound)) if trans == 0 else _refill(x, 'x')
                y_in = _refill(y, 'y')
                xi, yi = kdt_match(x_in, y_in, K=K, distance_upper_bound=bound)
                for m_ in _holder.swap((xi, yi), 'kdt_match %s K=%d bound=%r' % (d, K, bound)):
                    viols.append(('earlier-result-changed', m_))
                if not (np.array_equal(x_in, x) and np.array_equal(y_in, y)):
                    viols.append(('input-modified', '%s K=%d: a feature array was changed' % (d, K)))
            except Exception as e:
                viols.append(('raise:%s:K=%s' % (type(e).__name__, 'one' if K == 1 else ('gt-rows' if K > len(Y) else 'le-rows')),
                              '%s K=%d bound=%r raised %r' % (d, K, bound, e)))
                continue
            trans += 1
            xi = np.asarray(xi)
            yi = np.asarray(yi)
            tag = 'K=%d bound=%r -> x_inds=%s y_inds=%s' % (K, bound, xi.tolist()[:20], yi.tolist()[:20])
            if xi.ndim != 1 or yi.ndim != 1 or len(xi) != len(yi):
                viols.append(('lengths', '%s %s' % (d, tag)))
                continue
            if len(xi) and (xi.min() < 0 or xi.max() >= len(X) or yi.min() < 0 or yi.max() >= len(Y)):
                viols.append(('range', '%s %s' % (d, tag)))
                continue
            if len(set(xi.tolist())) != len(xi):
                viols.append(('repeat-x', '%s %s' % (d, tag)))
            if len(set(yi.tolist())) != len(yi):
                viols.append(('repeat-y', '%s %s' % (d, tag)))
            for a, b in zip(xi.tolist(), yi.tolist()):
                dist = D[a, b]
                row = np.sort(D[a])
                kth = row[min(K, len(row)) - 1]
                if dist > kth + 1e-12:
                    viols.append(('not-knn', '%s %s: pair (%d,%d) distance %g > K-th nearest %g' % (d, tag, a, b, dist, kth)))
                    break
                if dist > bound + 1e-12:
                    viols.append(('beyond-bound', '%s %s: pair (%d,%d) distance %g' % (d, tag, a, b, dist)))
                    break
            anymatch = anymatch or len(xi) > 0
            anyunmatched = anyunmatched or len(xi) < len(X)
    # other documented call forms give the same pairing: arguments by position, one-feature sets as [n x 1] columns
    if not viols and case[0] in ('1d', '2d', '1d-grid'):
        try:
            ref = kdt_match(x.copy(), y.copy(), K=2, distance_upper_bound=1.5)
            forms = [('positional (x, y, K, bound)', lambda: kdt_match(x.copy(), y.copy(), 2, 1.5))]
            if x.ndim == 1:
                forms.append(('[n x 1] columns', lambda: kdt_match(x[:, None].copy(), y[:, None].copy(), K=2, distance_upper_bound=1.5)))
            for fname, f_ in forms:
                alt = f_()
                trans += 1
                if not (np.array_equal(np.asarray(alt[0]), np.asarray(ref[0])) and np.array_equal(np.asarray(alt[1]), np.asarray(ref[1]))):
                    viols.append(('call-form-differs', '%s K=2 bound=1.5: %s gives %s / %s, the keyword call with arrays %s / %s' % (
                        d, fname, np.asarray(alt[0]).tolist(), np.asarray(alt[1]).tolist(), np.asarray(ref[0]).tolist(), np.asarray(ref[1]).tolist())))
        except Exception as e:
            viols.append(('raise:%s:call-form' % type(e).__name__, '%s: an alternative call form raised %r' % (d, e)))
    # state between calls: reuse the very same y buffer with new contents - the answer must be that of a fresh array
    if len(Y) >= 2 and not viols:
        ybuf = y.copy()
        try:
            kdt_match(x.copy(), ybuf, K=2)
            ybuf[...] = ybuf[::-1].copy()               # refill in place (same address, shape, dtype)
            got = kdt_match(x.copy(), ybuf, K=2)
            want = kdt_match(x.copy(), ybuf.copy(), K=2)
            trans += 3
            if not (np.array_equal(got[0], want[0]) and np.array_equal(got[1], want[1])):
                viols.append(('stale-state', '%s: y refilled in place -> %s / %s, fresh copy of the same values -> %s / %s' % (
                    d, np.asarray(got[0]).tolist()[:10], np.asarray(got[1]).tolist()[:10], np.asarray(want[0]).tolist()[:10], np.asarray(want[1]).tolist()[:10])))
        except Exception as e:
            viols.append(('raise:%s:reuse' % type(e).__name__, '%s second call raised %r' % (d, e)))
    return Outcome(cls=case[0], transitions=trans, viols=viols, nontrivial=anymatch and anyunmatched)


def describe(case, x, y):
    if case[0] == 'big':
        return 'big%r perm%r' % (case[1], case[2])
    return 'x=%s y=%s' % (x.tolist(), y.tolist())


def snippet(case, kind):
    if case[0] == 'big':
        return None
    x, y = build(case)
    return ('import numpy as np, emd\nx = np.array(%r); y = np.array(%r)\n'
            'for K in (1, 2, 3, 4, 15):\n    print(K, emd.cycles.kdt_match(x, y, K=K))\n'
            '# no x row and no y row may appear twice\n' % (x.tolist(), y.tolist()))


def nonvacuity(rep, ctx):
    if not {'1d', '2d', 'big', '1d-mixed', '1d-grid', '1d-offset'} <= set(rep.classes):
        return ['vacuous: outcome classes %r' % dict(rep.classes)]
    return []
