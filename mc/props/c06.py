"""C06 - every sift option takes effect at the stage it configures, in every variant.

Space: variants {sift, mask_sift, ensemble_sift, complete_ensemble_sift, sift_second_layer(sift), sift_second_layer
(mask_sift)} x option sets (one-at-a-time and pairwise deviations from the defaults) x delivery route {keyword dicts,
**SiftConfig, SiftConfig.get_func()} x signals; pooled variants additionally under the controlled fork pool with P = 2
and EVERY chunk->worker assignment (explorer S).
Oracle 1 (call tree): seams record the effective arguments of every get_next_imf / interp_envelope /
get_padded_extrema call, in the parent and in every worker; each must carry every supplied option.
Oracle 2 (output): the variant's output equals a pipeline assembled in the harness from the stage functions.
"""
import copy
import functools
import inspect
import itertools
import numpy as np

from ..engine.explore import Outcome
from ..engine import forkpool, enum, guard
from . import signals

PID = 'C06'
TIMEOUT = 120.0
RULE = ('every (variant, option set, route, signal) of the grid with the serial pool, and every chunk->worker '
        'assignment for the pooled variants with P=2 on a sub-list of option sets; non-trivial = the option set changes '
        'the output of the explicit pipeline on the signal')
ASSUMPTIONS = ['the unmasked first-IMF call inside get_mask_freqs is only required to carry imf_opts (as documented)',
               'the explicit pipelines use the captured stage functions emd.sift.get_next_imf / sift as building blocks',
               'seams interpose on module globals of emd.sift; oracle 2 is independent of them']

OPTSETS = [
    # (imf_opts, envelope_opts, extrema_opts)
    ({'stop_method': 'rilling'}, None, None),
    ({'stop_method': 'rilling', 'rilling_thresh': (0.1, 0.5, 0.1)}, None, None),
    ({'stop_method': 'fixed', 'max_iters': 3}, None, None),
    ({'env_step_size': 0.5}, None, None),
    ({'sd_thresh': 0.3}, None, None),
    ({'sd_thresh': 0.02, 'env_step_size': 0.7}, None, None),
    (None, {'interp_method': 'pchip'}, None),
    (None, {'interp_method': 'mono_pchip'}, None),
    (None, None, {'pad_width': 1}),
    (None, None, {'pad_width': 4}),
    (None, None, {'parabolic_extrema': True}),
    (None, None, {'mag_pad_opts': {'mode': 'mean', 'stat_length': 2}}),
    (None, None, {'mag_pad_opts': {'mode': 'maximum', 'stat_length': 2}, 'pad_width': 3}),
    (None, None, {'loc_pad_opts': {'mode': 'reflect', 'reflect_type': 'odd'}, 'pad_width': 1}),
    ({'stop_method': 'fixed', 'max_iters': 2}, {'interp_method': 'pchip'}, None),
    ({'sd_thresh': 0.3}, None, {'pad_width': 1}),
    (None, {'interp_method': 'mono_pchip'}, {'parabolic_extrema': True}),
    ({'env_step_size': 0.5}, {'interp_method': 'pchip'}, {'pad_width': 3, 'parabolic_extrema': True}),
    ({'stop_method': 'rilling'}, {'interp_method': 'pchip'}, {'mag_pad_opts': {'mode': 'mean', 'stat_length': 2}}),
    # an option given WITHOUT its companions: the companions keep their documented defaults on every route
    ({'stop_method': 'fixed'}, None, None),
    ({'stop_method': 'rilling', 'rilling_thresh': (0.2, 3.0, 0.2)}, None, None),
]
POOLED_SETS = (2, 7, 8, 10, 17)
VARIANTS = ('sift', 'mask_sift', 'ensemble_sift', 'complete_ensemble_sift', 'second_sift', 'second_mask',
            'ensemble_sift:flip', 'complete_ensemble_sift:flip')
ROUTES = ('kwargs', 'config', 'get_func', 'config-nested', 'get_func-reused')
SIGNALS = [('tone', 64, 2, 'lin', 'none'), ('tone', 32, 3, 'none', 'am'), ('noise', 64, 0, 'none', 'none')]
CAP = 3

_orig = {}
_flag = {'maskfreq': 0}


def norm(v):
    if isinstance(v, (list, tuple)):
        return tuple(norm(x) for x in v)
    if isinstance(v, dict):
        return tuple(sorted((k, norm(x)) for k, x in v.items()))
    if isinstance(v, np.ndarray):
        return tuple(v.tolist())
    return v


def install_seams():
    import emd.sift as S
    if _orig:
        return
    for name in ('get_next_imf', 'interp_envelope', 'get_padded_extrema', 'get_mask_freqs', 'sift', 'mask_sift',
                 '_sift_with_noise', 'get_next_imf_mask'):
        _orig[name] = getattr(S, name)

    def recorder(name, keys):
        f = _orig[name]
        sig = inspect.signature(f)

        @functools.wraps(f)
        def wrapped(*a, **k):
            try:
                ba = sig.bind(*a, **k)
                ba.apply_defaults()
                eff = {kk: norm(ba.arguments[kk]) for kk in keys}
            except TypeError:
                eff = {'unbindable': True}
            forkpool.TRACE.append((name, eff, _flag['maskfreq'] > 0))
            return f(*a, **k)
        return wrapped
    S.get_next_imf = recorder('get_next_imf', ('env_step_size', 'max_iters', 'stop_method', 'sd_thresh', 'rilling_thresh',
                                                'envelope_opts', 'extrema_opts'))
    S.interp_envelope = recorder('interp_envelope', ('interp_method', 'extrema_opts'))
    S.get_padded_extrema = recorder('get_padded_extrema', ('pad_width', 'parabolic_extrema', 'loc_pad_opts', 'mag_pad_opts'))
    gmf = _orig['get_mask_freqs']

    @functools.wraps(gmf)
    def get_mask_freqs(*a, **k):
        _flag['maskfreq'] += 1
        try:
            return gmf(*a, **k)
        finally:
            _flag['maskfreq'] -= 1
    S.get_mask_freqs = get_mask_freqs
    # the noise actually used by the ensemble variants
    swn = _orig['_sift_with_noise']

    @functools.wraps(swn)
    def _sift_with_noise(*a, **k):
        forkpool.TRACE.append(('member', np.array(a[0], dtype=float).copy(), None if a[2] is None else np.array(a[2], dtype=float).copy(), a[1], a[3]))
        return swn(*a, **k)
    S._sift_with_noise = _sift_with_noise


def bounds(tier):
    if tier == 'quick':
        return {'signals': 2, 'pooled_sets': POOLED_SETS[:3]}
    return {'signals': 3, 'pooled_sets': POOLED_SETS}


def nchunks(ntasks, P):
    cs, extra = divmod(ntasks, 4 * P)
    if extra:
        cs += 1
    return -(-ntasks // cs), cs


def cases(tier, seed):
    b = bounds(tier)
    for si in range(b['signals']):
        for oi in range(len(OPTSETS)):
            for v in VARIANTS:
                if OPTSETS[oi][0] == {'stop_method': 'fixed'} and (si != 1 or v not in ('sift', 'second_sift')):
                    continue        # 1000 iterations per extraction: the 32-sample signal and two variants only
                for route in ROUTES:
                    if v.startswith('second') and route != 'kwargs':
                        continue
                    yield (v, si, oi, route, None, seed)
    for si in range(b['signals']):
        for oi in b['pooled_sets']:
            for rgs in enum.restricted_growth_strings(3, 2):
                yield ('ensemble_sift', si, oi, 'kwargs', (rgs,), seed)
                yield ('ensemble_sift:flip', si, oi, 'config', (rgs,), seed)
            for r1 in enum.restricted_growth_strings(3, 2):
                for r2 in enum.restricted_growth_strings(3, 2):
                    yield ('mask_sift', si, oi, 'config', (r1, r2), seed)
            for rgs in enum.restricted_growth_strings(8, 2):
                yield ('complete_ensemble_sift', si, oi, 'get_func', (rgs,), seed)


def decode_case(c):
    def tup(x):
        return tuple(tup(v) for v in x) if isinstance(x, list) else x
    return tup(c)


# ------------------------------------------------------------------------------------------------------------
# explicit pipelines (oracle 2)

def pipe_sift(x, imf_opts, envelope_opts, extrema_opts, cap=None, sift_thresh=1e-8):
    gni = _orig['get_next_imf']
    X = np.asarray(x, dtype=float).reshape(len(x), 1)
    io = imf_opts if imf_opts else {'env_step_size': 1, 'sd_thresh': .1}
    cols = []
    while True:
        r = X - (np.sum(cols, axis=0) if cols else 0)
        imf, flag = gni(r, envelope_opts=copy.deepcopy(envelope_opts), extrema_opts=copy.deepcopy(extrema_opts), **copy.deepcopy(io))
        cols.append(np.asarray(imf))
        if not flag or (cap is not None and len(cols) == cap) or np.abs(imf).sum() < sift_thresh:
            break
    return np.concatenate(cols, axis=1)


def pipe_mask_imf(r, z, amp, nph, imf_opts, envelope_opts, extrema_opts):
    gni = _orig['get_next_imf']
    N = r.shape[0]
    t = np.arange(N)
    acc = np.zeros((N, 1))
    flags = []
    for p in range(nph):
        m = (amp * np.cos(2 * np.pi * z * t + 2 * np.pi * p / nph))[:, None]
        imf, flag = gni(r + m, envelope_opts=copy.deepcopy(envelope_opts), extrema_opts=copy.deepcopy(extrema_opts),
                        **copy.deepcopy(imf_opts or {}))
        acc += imf - m
        flags.append(flag)
    return acc / nph, any(flags)


def pipe_mask_sift(x, imf_opts, envelope_opts, extrema_opts, cap, nph, mask_freqs='zc', sift_thresh=1e-8):
    gni = _orig['get_next_imf']
    X = np.asarray(x, dtype=float).reshape(len(x), 1)
    if isinstance(mask_freqs, str):
        imf0, _ = gni(X, **(imf_opts or {}))
        z0 = int((np.diff(np.sign(imf0[:, 0])) != 0).sum()) / X.shape[0] / 4
        freqs = [z0 / 2 ** k for k in range(cap)]
    else:
        freqs = list(mask_freqs)
        cap = min(cap, len(freqs))
    cols = []
    while True:
        r = X - (np.sum(cols, axis=0) if cols else 0)
        s = X.std() if not cols else cols[-1].std()
        imf, flag = pipe_mask_imf(r, freqs[len(cols)], 1 * s, nph, imf_opts, envelope_opts, extrema_opts)
        cols.append(imf)
        if not flag or len(cols) == cap or np.abs(imf).sum() < sift_thresh:
            break
    return np.concatenate(cols, axis=1)


def pipe_member(X, noise, scaling, mode, cap, o):
    n = noise if scaling is None else noise * scaling
    a = pipe_sift((X + n)[:, 0], *o, cap=cap)
    if mode == 'single':
        return a
    b = pipe_sift((X - n)[:, 0], *o, cap=cap)
    k = min(a.shape[1], b.shape[1])
    return (a[:, :k] + b[:, :k]) / 2


def pipe_ceemd(x, E, sg, o, seed_state, cap, mode='single'):
    """complete-ensemble pipeline assembled from sift pipelines, replaying the parent's noise matrix."""
    X = np.asarray(x, dtype=float).reshape(len(x), 1)
    scaling = X.std() * sg
    np.random.set_state(seed_state)
    noise = np.random.random_sample((X.shape[0], E)) * scaling
    imf = np.mean([pipe_member(X, noise[:, i, None], scaling, mode, 1, o) for i in range(E)], axis=0)
    noise = noise - np.array([pipe_sift(noise[:, i], *o, cap=1)[:, 0] for i in range(E)]).T
    layer = 1
    while layer < cap:
        r = X - imf.sum(axis=1)[:, None]
        nxt = np.mean([pipe_member(r, noise[:, i, None], None, mode, 1, o) for i in range(E)], axis=0)
        imf = np.concatenate((imf, nxt), axis=1)
        noise = noise - np.array([pipe_sift(noise[:, i], *o, cap=1)[:, 0] for i in range(E)]).T
        layer += 1
        mx, _ = signals.strict_extrema(imf[:, -1])
        if len(mx) < 2 or np.abs(nxt).mean() < 1e-8:
            break
    return imf


# ------------------------------------------------------------------------------------------------------------

def call_variant(v, x, o, route, nproc):
    """Run the real variant with options delivered through `route`; returns its output."""
    import emd.sift as S
    io, eo, xo = o      # the caller hands in its own deep copy and compares it with the table afterwards
    if v.startswith('second'):
        first = _orig['sift'](x.copy(), max_imfs=2)
        IA = np.abs(first) + 0.1
        del forkpool.TRACE[:]     # the first-layer sift is not part of the call under test
        args = dict(imf_opts=io, envelope_opts=eo, extrema_opts=xo, max_imfs=CAP)
        if v == 'second_sift':
            return S.sift_second_layer(IA.copy(), sift_func=S.sift, sift_args=args), IA
        args.update(mask_freqs=np.array([0.2, 0.08, 0.03]), nphases=2)
        return S.sift_second_layer(IA.copy(), sift_func=S.mask_sift, sift_args=args), IA
    extra = {'max_imfs': CAP}
    flip = v.endswith(':flip')
    v = v.split(':')[0]
    if flip:
        extra['noise_mode'] = 'flip'
    if v == 'mask_sift':
        extra.update(nphases=3, nprocesses=nproc, mask_freqs='zc')
    elif v in ('ensemble_sift', 'complete_ensemble_sift'):
        extra.update(nensembles=3 if v == 'ensemble_sift' else 2, nprocesses=nproc, ensemble_noise=0.3)
        if v == 'complete_ensemble_sift':
            extra['max_imfs'] = 2
    f = getattr(S, v)
    if route == 'kwargs':
        return f(x.copy(), imf_opts=io, envelope_opts=eo, extrema_opts=xo, **extra), None
    cfg = S.get_config(v)
    for k_, val in extra.items():
        cfg[k_] = val
    if route == 'get_func-reused':
        # a configuration with a past: its callable was already built once, and every option group was written back
        # as an equal-valued copy of itself, before the options are edited through key paths
        import copy
        cfg.get_func()
        for name in ('imf_opts', 'envelope_opts', 'extrema_opts'):
            cfg[name] = copy.deepcopy(cfg[name])
        route = 'get_func'
    for name, d in (('imf_opts', io), ('envelope_opts', eo), ('extrema_opts', xo)):
        for k_, val in (d or {}).items():
            if route == 'config-nested':
                # the documented idiom: config['extrema_opts']['parabolic_extrema'] = True (nested indexing)
                if isinstance(val, dict):
                    for k3 in list(cfg[name][k_].keys()):
                        if k3 not in val:
                            del cfg[name][k_][k3]
                    for k3, v3 in val.items():
                        cfg[name][k_][k3] = v3
                else:
                    cfg[name][k_] = val
            elif isinstance(val, dict) and route == 'get_func':
                # three-level key paths: edit the nested pad-option dictionary entry by entry, in place
                for k3 in list(cfg['%s/%s' % (name, k_)].keys()):
                    if k3 not in val:
                        del cfg['%s/%s/%s' % (name, k_, k3)]
                for k3, v3 in val.items():
                    cfg['%s/%s/%s' % (name, k_, k3)] = v3
            else:
                cfg['%s/%s' % (name, k_)] = val
    if route in ('config', 'config-nested'):
        return f(x.copy(), **cfg), cfg
    return cfg.get_func()(x.copy()), cfg


def effective_opts(o, cfg):
    """What the stage functions must see: supplied options (kwargs route) or the full config (config routes).
    For the config routes the supplied options must also really be IN the config."""
    io, eo, xo = o
    if cfg is None:
        return dict(io or {}), dict(eo or {}), dict(xo or {})
    out = (dict(cfg['imf_opts']), dict(cfg['envelope_opts']), dict(cfg['extrema_opts']))
    for have, want in zip(out, (io, eo, xo)):
        for k_, val in (want or {}).items():
            if norm(have.get(k_)) != norm(val):
                raise LostOption('%s=%r was written to the configuration but it holds %r' % (k_, val, have.get(k_)))
    return out


class LostOption(Exception):
    pass


def check_case(case):
    install_seams()
    import emd.sift as S
    v, si, oi, route, sched, seed = case
    x = signals.fb_signal(SIGNALS[si], seed)
    o = copy.deepcopy(OPTSETS[oi])
    tag = '%s signal=%d options=%r route=%s schedule=%r' % (v, si, o, route, sched)
    viols = []
    pristine_default(si, seed)
    np.random.seed(77 + seed)
    state = np.random.get_state()
    del forkpool.TRACE[:]
    mpobj = forkpool.SerialMP() if sched is None else forkpool.ControlledMP([list(r) for r in sched])
    with forkpool.installed(mpobj):
        try:
            out, aux = call_variant(v, x, o, route, 1 if sched is None else 2)
        except forkpool.HarnessError:
            raise
        except Exception as e:
            del forkpool.TRACE[:]
            return Outcome(cls='raise', viols=[('%s:raise:%s' % (v, type(e).__name__), '%s raised %r' % (tag, e))])
    recs = list(forkpool.TRACE)
    del forkpool.TRACE[:]
    in_workers = 0
    if sched is not None:
        for e in mpobj.log:
            recs.extend(e['trace'])
            in_workers += len(e['trace'])
    cfg = aux if not v.startswith('second') else None
    vbase = v.split(':')[0]
    if not norm(o) == norm(OPTSETS[oi]):
        viols.append(('%s:options-modified' % v, '%s: the option dictionaries handed to the call were changed' % tag))
    try:
        io, eo, xo = effective_opts(o, cfg)
    except LostOption as e:
        return Outcome(cls='%s:%s' % (v, 'serial'), viols=viols + [('%s:config-lost-option' % v, '%s: %s' % (tag, e))])
    # ---- oracle 1: call tree
    counts = {'get_next_imf': 0, 'interp_envelope': 0, 'get_padded_extrema': 0}
    for r in recs:
        if r[0] not in counts:
            continue
        name, eff, under_mf = r
        counts[name] += 1
        if eff.get('unbindable'):
            viols.append(('%s:calltree:unbindable' % v, '%s: a %s call could not be bound to its signature' % (tag, name)))
            break
        if name == 'get_next_imf':
            want = dict(io)
            if not under_mf:
                if eo or cfg is not None:
                    want['envelope_opts'] = eo or None
                if xo or cfg is not None:
                    want['extrema_opts'] = xo or None
        elif under_mf:
            continue
        elif name == 'interp_envelope':
            want = dict(eo)
            if xo:
                want['extrema_opts'] = xo
        else:
            want = dict(xo)
        for k_, val in want.items():
            got = eff.get(k_)
            if k_ in ('envelope_opts', 'extrema_opts'):
                # a sub-dictionary must contain every supplied entry
                gd = dict(got) if got else {}
                bad = [kk for kk, vv in (val or {}).items() if gd.get(kk) != norm(vv)]
                if bad:
                    viols.append(('%s:calltree:%s-dropped' % (v, k_), '%s: %s call received %s=%r, supplied %r' % (tag, name, k_, got, val)))
                    break
            elif got != norm(val):
                viols.append(('%s:calltree:%s-option-not-seen' % (v, name), '%s: %s call saw %s=%r, supplied %r' % (tag, name, k_, got, val)))
                break
        if viols:
            break
    if not viols and min(counts.values()) == 0:
        viols.append(('%s:calltree:empty' % v, '%s: no stage calls were observed %r' % (tag, counts)))
    if sched is not None and in_workers == 0:
        viols.append(('%s:calltree:no-worker-records' % v, '%s: no stage call was observed inside a worker' % tag))
    # ---- oracle 2: explicit pipeline
    popts = (o[0], o[1], o[2]) if cfg is None else (io, eo, xo)
    try:
        with forkpool.installed(forkpool.SerialMP()):
            want, default = expected_output(vbase, x, popts, recs, state, aux, flip=v.endswith(':flip'))
    except Exception as e:
        return Outcome(cls='pipeline-error', viols=viols + [('harness:pipeline', '%s: explicit pipeline raised %r' % (tag, e))])
    got = np.asarray(out[0] if isinstance(out, tuple) else out)
    scale = 1e-10 * (1 + np.max(np.abs(x)))
    if got.shape != want.shape or not np.max(np.abs(got - want)) <= scale:
        viols.append(('%s:output' % v, '%s: output differs from the explicit pipeline (shape %r vs %r%s)' % (
            tag, got.shape, want.shape, '' if got.shape != want.shape else ', max diff %.3g' % np.max(np.abs(got - want)))))
    # ---- oracle 3: the delivery route must not matter (a config is just defaults + the supplied options)
    if route != 'kwargs' and sched is None and not v.startswith('second'):
        np.random.set_state(state)
        try:
            with forkpool.installed(forkpool.SerialMP()):
                out_kw, _ = call_variant(v, x, o, 'kwargs', 1)
            got_kw = np.asarray(out_kw[0] if isinstance(out_kw, tuple) else out_kw)
            if got_kw.shape != got.shape or not np.max(np.abs(got_kw - got)) <= scale:
                viols.append(('%s:route-changes-result' % v, '%s: result differs from the keyword-dictionary route for the same options' % tag))
        except Exception as e:
            viols.append(('%s:route:raise' % v, '%s: keyword route raised %r' % (tag, e)))
        del forkpool.TRACE[:]
    # ---- oracle 4: options of this call must not leak into later calls (defaults stay the defaults)
    again = np.asarray(_orig['sift'](x.copy(), max_imfs=CAP))
    del forkpool.TRACE[:]
    ref0 = pristine_default(si, seed)
    if again.shape != ref0.shape or not np.array_equal(again, ref0):
        viols.append(('%s:options-leak-into-later-calls' % v, '%s: after this call sift(x) with no options no longer gives the result it gave before' % tag))
        _pristine.pop((si, seed), None)
    effect = default.shape != want.shape or np.max(np.abs(default - want)) > 1e-6
    return Outcome(cls='%s:%s' % (v, 'pooled' if sched is not None else 'serial'), transitions=sum(counts.values()),
                   viols=viols, nontrivial=bool(effect))


def expected_output(v, x, o, recs, state, aux, flip=False):
    """-> (expected output with options o, expected output with default options)"""
    X = x[:, None]
    none = (None, None, None)
    if v == 'sift':
        return pipe_sift(x, *o, cap=CAP), pipe_sift(x, *none, cap=CAP)
    if v == 'mask_sift':
        return pipe_mask_sift(x, *o, cap=CAP, nph=3), pipe_mask_sift(x, *none, cap=CAP, nph=3)
    if v == 'ensemble_sift':
        members = [r for r in recs if r[0] == 'member']
        res = []
        for oo in (o, none):
            mem = [pipe_member(m[1], m[2], m[3], m[4], CAP, oo) for m in members]
            k = min(a.shape[1] for a in mem)
            res.append(np.mean([a[:, :k] for a in mem], axis=0))
        return res[0], res[1]
    if v == 'complete_ensemble_sift':
        m_ = 'flip' if flip else 'single'
        return pipe_ceemd(x, 2, 0.3, o, state, 2, mode=m_), pipe_ceemd(x, 2, 0.3, none, state, 2, mode=m_)
    IA = aux
    res = []
    for oo in (o, none):
        out = np.zeros((IA.shape[0], IA.shape[1], CAP))
        for m in range(IA.shape[1]):
            if v == 'second_sift':
                t = pipe_sift(IA[:, m], *oo, cap=CAP)
            else:
                t = pipe_mask_sift(IA[:, m], *oo, cap=CAP, nph=2, mask_freqs=[0.2, 0.08, 0.03])
            out[:, m, :t.shape[1]] = t
        res.append(out)
    return res[0], res[1]


_pristine = {}


def pristine_default(si, seed):
    """sift(x) with no options, computed in this process before any configuration object has been edited."""
    key = (si, seed)
    if key not in _pristine:
        x = signals.fb_signal(SIGNALS[si], seed)
        install_seams()
        _pristine[key] = np.asarray(_orig['sift'](x.copy(), max_imfs=CAP))
        del forkpool.TRACE[:]
    return _pristine[key]


def worker_init():
    install_seams()


def nonvacuity(rep, ctx):
    need = {'%s:serial' % v for v in VARIANTS} | {'ensemble_sift:pooled', 'mask_sift:pooled', 'complete_ensemble_sift:pooled'}
    errs = []
    if not need <= set(rep.classes):
        errs.append('vacuous: outcome classes %r' % dict(rep.classes))
    if rep.nontrivial < 0.5 * rep.evaluations:
        errs.append('fewer than half of the option sets changed the pipeline output (%d of %d)' % (rep.nontrivial, rep.evaluations))
    return errs
