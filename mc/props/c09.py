"""C09 - instantaneous phase, frequency and amplitude are consistent and accurate.

Space (explorer I), three complete finite grids:
 struct : methods x oscillatory multi-column signals x sample rates x scale factors 2^k - shape, range, IF/phase
          consistency, scale laws, amplitude normalisation
 acc    : methods x cycles-per-record x amplitude x starting phase x sample rate - recovery of a pure sinusoid
 trip   : every frequency profile of length 2..L over a 3-level alphabet x sample rates - phase/frequency round trip
"""
import itertools
import numpy as np

from ..engine.explore import Outcome, Refill, Holder

_refill = Refill()
_holder = Holder()
from ..engine import enum

PID = 'C09'
TIMEOUT = 60.0
RULE = ('struct: every (method, signal, sample rate) with 5 scale factors each; acc: every grid point; trip: every '
        'profile; non-trivial = multi-column signal (struct), non-integer cycle count (acc), non-constant profile (trip)')
ASSUMPTIONS = ['the accuracy clause is over a continuum and is decided on the stated finite grid only',
               'accuracy tolerances on the interior 60%: median IF error 3% (hilbert, nht) / 10% (quad), median IA error 5%, max '
               'circular phase error 0.1 rad (hilbert, nht) / 0.6 rad (quad); worst values measured on the reference tree: '
               'IF 0.95% / 4.6%, IA 1.5%, phase 0.04 / 0.34 rad; integer cycle counts with hilbert are held to 1e-9',
               'IF/phase consistency is judged where consecutive wrapped-phase steps are below pi']

METHODS = ('hilbert', 'nht', 'quad')
SRS = (1.0, 128.0, 1000.0)
SCALES = (2.0 ** -40, 2.0 ** -6, 0.5, 1.0, 8.0, 1024.0, 2.0 ** 40)    # 2^-40 ~ 1e-12: absolute guards show up
CYCLES = (5.0, 7.3, 20.5, 50.0, 85.0)
AMPS = (0.01, 1.0, 100.0)
PHI0 = tuple(np.arange(8) * np.pi / 4 + 0.1 * (np.arange(8) % 2))


def bounds(tier):
    if tier == 'quick':
        return {'Ns': (64, 256, 1024), 'trip_len': 7, 'acc_N': (1024, 777), 'phi': PHI0, 'cycles': CYCLES}
    return {'Ns': (64, 256, 1024, 4096), 'trip_len': 9, 'acc_N': (1024, 777, 500, 2048),
            'phi': tuple(np.arange(16) * np.pi / 8 + 0.05 * (np.arange(16) % 3)),
            'cycles': CYCLES + (11.5, 33.0, 64.25, 6.0)}


_noise_imfs = {}


def struct_signal(name, seed):
    N, ncol, kind = name
    if kind == 'noise-imfs':
        # broadband IMFs: the first columns of a sifted noise record (what the transforms are fed in practice)
        key = (N, seed)
        if key not in _noise_imfs:
            from emd.sift import sift
            from . import signals
            tab = signals.noise_table(seed)
            x = np.concatenate([tab[i % 8] * (1 + 0.1 * i) for i in range(-(-N // 256))])[:N]
            _noise_imfs[key] = np.asarray(sift(x, max_imfs=4))
        return _noise_imfs[key][:, :ncol].copy()
    t = np.arange(N) / N
    cols = []
    for j in range(ncol):
        f = ((9.3, 4.1, 2.2)[j] if j < 3 else 2.0 + 0.9 * j) * (1 + 0.07 * (seed % 4))
        ph = 2 * np.pi * f * t + 0.7 * j
        a = 1.0 / (j + 1)
        if kind == 'fm':
            ph = ph + 0.5 * np.sin(2 * np.pi * 1.1 * t)
        if kind == 'am':
            a = a * (1 + 0.4 * np.sin(2 * np.pi * 0.8 * t + j))
        cols.append(a * np.cos(ph))
    return np.c_[tuple(cols)]


def cases(tier, seed):
    b = bounds(tier)
    for s in enum.sequences(range(3), 2, b['trip_len']):
        for sr in (1.0, 10.0):
            yield ('trip', s, sr, seed)
    for N in b['Ns']:
        for ncol in (1, 2, 3):
            for kind in ('plain', 'am', 'fm'):
                for m in METHODS:
                    for sr in SRS:
                        yield ('struct', (N, ncol, kind), m, sr, seed)
    # broadband IMFs (sifted noise), where the amplitude normalisation needs several passes
    for N in (256, 1024, 4096) if tier == 'quick' else (200, 256, 1000, 1024, 4096, 5000):
        for ncol in (1, 3):
            for m in METHODS:
                yield ('struct', (N, ncol, 'noise-imfs'), m, 128.0, seed)
    # larger scope: many IMF columns at once - every column must come out as if it had been transformed alone
    for ncol in (17, 33):
        for m in METHODS:
            yield ('wide', (256, ncol, 'plain'), m, 128.0, seed)
    for N in b['Ns'][:2]:
        for kind in ('plain', 'am', 'fm'):
            for m in METHODS:
                yield ('struct3d', (N, 3, kind), m, 128.0, seed)
                yield ('typed', (N, 2, kind), m, 128.0, seed)
    for N in b['acc_N'][:1]:
        for m in METHODS:
            for sp in ('None', '3'):
                for cyc in (7.3, 20.0):
                    for p in b['phi'][::3]:
                        yield ('acc', (N, cyc, 1.0, float(p)), m + '|' + sp, 128.0, seed)
    for N in b['acc_N']:
        for m in METHODS:
            for cyc in b['cycles']:
                if cyc > N / 12.0:
                    continue
                for a in AMPS:
                    for p in b['phi']:
                        for sr in SRS:
                            yield ('acc', (N, cyc, a, float(p)), m, sr, seed)


def decode_case(c):
    c = list(c)
    c[1] = tuple(c[1])
    return tuple(c)


def check_case(case):
    return {'trip': check_trip, 'struct': check_struct, 'acc': check_acc, 'struct3d': check_struct3d, 'typed': check_typed, 'wide': check_wide}[case[0]](case)


def check_trip(case):
    from emd.spectra import phase_from_freq, freq_from_phase
    _, s, sr, seed = case
    lv = np.array([(0.5, 2.0, 3.5), (1.0, 1.5, 4.0), (0.25, 0.75, 6.0)][seed % 3])
    f = lv[list(s)]
    viols = []
    try:
        ph = phase_from_freq(f.copy(), sr)
        back = np.asarray(freq_from_phase(ph, sr))
    except Exception as e:
        return Outcome(cls='trip', viols=[('trip:raise:%s' % type(e).__name__, 'profile %s sr=%g raised %r' % (f.tolist(), sr, e))])
    want = np.empty_like(f)
    n = len(f)
    want[0] = f[1]
    want[-1] = f[-1]
    for t in range(1, n - 1):
        want[t] = (f[t] + f[t + 1]) / 2
    if back.shape != f.shape or not np.allclose(back, want, rtol=1e-12, atol=1e-12):
        viols.append(('trip:value', 'profile %s sr=%g: round trip %s expected %s' % (f.tolist(), sr, back.tolist(), want.tolist())))
    # the phase itself: increments are 2*pi*f/sr
    if not np.allclose(np.diff(ph), 2 * np.pi * f[1:] / sr, rtol=1e-12, atol=1e-12):
        viols.append(('trip:phase-increment', 'profile %s sr=%g: phase increments %s' % (f.tolist(), sr, np.diff(ph).tolist())))
    return Outcome(cls='trip', transitions=2, viols=viols, nontrivial=len(set(s)) > 1)


def consistency(IP, IF, sr):
    """max |IF - sr/2pi * gradient(unwrap(IP))| over samples whose neighbouring wrapped-phase steps are < pi."""
    up = np.unwrap(IP, axis=0)
    want = np.gradient(up, axis=0) / (2 * np.pi) * sr
    d = np.abs(np.diff(up, axis=0))
    ok = np.ones(IP.shape, dtype=bool)
    big = d >= np.pi - 1e-6
    ok[:-1][big] = False
    ok[1:][big] = False
    # the wrapped-phase step of the *true* phase must also be < pi for unwrap to invert the wrap
    err = np.abs(IF - want)[ok]
    return (np.max(err) if err.size else 0.0), ok.mean()


def check_struct(case):
    from emd.spectra import frequency_transform
    from emd.utils import amplitude_normalise
    _, name, m, sr, seed = case
    X = struct_signal(name, seed)
    N, ncol, kind = name
    viols = []
    trans = 0
    tag = 'signal %r method=%s sr=%g' % (name, m, sr)
    base = None
    for sc in SCALES:
        try:
            # handed over in a caller-owned buffer that is refilled in place from call to call
            Xin = _refill.primed(X * sc, 'struct', lambda b_: frequency_transform(b_, sr, m))
            IP, IF, IA = frequency_transform(Xin, sr, m)
            for m_ in _holder.swap((IP, IF, IA), 'frequency_transform %s scale %g' % (tag, sc)):
                viols.append(('struct:earlier-result-changed', m_))
            if not np.array_equal(Xin, X * sc):
                viols.append(('struct:input-modified', '%s scale %g: the IMF array was changed by the call' % (tag, sc)))
        except Exception as e:
            viols.append(('struct:raise:%s' % type(e).__name__, '%s scale %g raised %r' % (tag, sc, e)))
            continue
        trans += 1
        IP, IF, IA = np.asarray(IP), np.asarray(IF), np.asarray(IA)
        if not (IP.shape == IF.shape == IA.shape == X.shape):
            viols.append(('struct:shape', '%s: shapes %r %r %r for input %r' % (tag, IP.shape, IF.shape, IA.shape, X.shape)))
            continue
        if not (np.all(IP >= 0) and np.all(IP < 2 * np.pi)):
            bad = IP[(IP < 0) | (IP >= 2 * np.pi)]
            viols.append(('struct:phase-range', '%s scale %g: phase outside [0, 2pi): %s' % (tag, sc, bad[:3].tolist())))
        err, frac = consistency(IP, IF, sr)
        if not err <= 1e-9 * sr:
            viols.append(('struct:if-vs-phase', '%s scale %g: IF differs from sr/2pi*d(unwrap(IP)) by %.3g' % (tag, sc, err)))
        if sc == 1.0:
            base = (IP, IF, IA)
    if base is not None:
        for sc in SCALES:
            if sc == 1.0:
                continue
            try:
                IP, IF, IA = [np.asarray(a) for a in frequency_transform((X * sc).copy(), sr, m)]
            except Exception:
                continue
            trans += 1
            exact = (m == 'hilbert')
            okp = np.array_equal(IP, base[0]) if exact else np.allclose(IP, base[0], rtol=0, atol=1e-9)
            okf = np.array_equal(IF, base[1]) if exact else np.allclose(IF, base[1], rtol=0, atol=1e-9 * sr)
            oka = np.array_equal(IA, base[2] * sc) if exact else np.allclose(IA, base[2] * sc, rtol=1e-9, atol=0)
            if not (okp and okf):
                viols.append(('struct:scale-phase', '%s: phase/frequency change under rescaling by %g' % (tag, sc)))
            if not oka:
                viols.append(('struct:scale-amp', '%s: amplitude is not multiplied by %g under rescaling' % (tag, sc)))
    # the phase routine called directly (it is a public function): its default / 'wrapped' return is the wrapped form of
    # its 'unwrapped' return, with and without smoothing, and is the phase frequency_transform reports for 'hilbert'
    if m == 'hilbert' and base is not None:
        from emd.spectra import phase_from_complex_signal
        from scipy import signal as _sig
        an = _sig.hilbert(X, axis=0)
        for sm in (None, 5):
            try:
                w0 = np.asarray(phase_from_complex_signal(an.copy(), smoothing=sm))
                w1 = np.asarray(phase_from_complex_signal(an.copy(), smoothing=sm, ret_phase='wrapped'))
                u1 = np.asarray(phase_from_complex_signal(an.copy(), smoothing=sm, ret_phase='unwrapped'))
                ipx = np.asarray(frequency_transform(X.copy(), sr, 'hilbert', smooth_phase=sm)[0])
            except Exception as e:
                viols.append(('phase-direct:raise:%s' % type(e).__name__, '%s smoothing=%r raised %r' % (tag, sm, e)))
                continue
            trans += 4

            def same_angle(a, b):
                return a.shape == b.shape and np.max(np.abs(np.angle(np.exp(1j * (a - b))))) <= 1e-9
            if not (same_angle(w0, w1) and same_angle(w1, u1)):
                viols.append(('phase-direct:wrapped-vs-unwrapped', '%s smoothing=%r: the wrapped return of phase_from_complex_signal is not the '
                              'wrapped form of its unwrapped return' % (tag, sm)))
            elif not same_angle(w1, ipx):
                viols.append(('phase-direct:vs-transform', '%s smoothing=%r: phase_from_complex_signal differs from the phase of frequency_transform' % (tag, sm)))
            elif not (np.all(w0 >= 0) and np.all(w0 < 2 * np.pi)):
                viols.append(('phase-direct:range', '%s smoothing=%r: wrapped phase outside [0, 2pi)' % (tag, sm)))
    # amplitude normalisation called directly: one pass divides by the combined envelope of the SELECTED interpolant, and a
    # vector is treated like the single column it is
    if m == 'nht' and ncol == 1 and sr == SRS[0]:
        from emd.sift import interp_envelope
        xv = X[:, 0].copy()
        for im in ('pchip', 'splrep', 'mono_pchip'):
            try:
                col = np.asarray(amplitude_normalise(X.copy(), interp_method=im, max_iters=1))
                vec = np.asarray(amplitude_normalise(xv.copy(), interp_method=im, max_iters=1))
                env = interp_envelope(xv.copy(), mode='combined', interp_method=im)
            except Exception as e:
                viols.append(('norm-direct:raise:%s' % type(e).__name__, '%s interp_method=%s raised %r' % (tag, im, e)))
                continue
            trans += 3
            if env is None:
                continue
            want = xv / np.asarray(env)
            if vec.reshape(-1).shape != want.shape or not np.allclose(vec.reshape(-1), want, rtol=1e-10, atol=1e-12):
                viols.append(('norm-direct:vector', '%s: amplitude_normalise(vector, interp_method=%s, max_iters=1) is not x / combined %s envelope (max diff %.3g)' % (
                    tag, im, im, np.max(np.abs(vec.reshape(-1) - want)))))
            if not np.allclose(col.reshape(-1), vec.reshape(-1), rtol=1e-12, atol=1e-14):
                viols.append(('norm-direct:layout', '%s interp_method=%s: vector and column input are normalised differently' % (tag, im)))
    # amplitude normalisation (used by nht / quad)
    if m == 'nht':
        for clip in (False, True):
            try:
                a1 = np.asarray(amplitude_normalise(X.copy(), clip=clip))
                a2 = np.asarray(amplitude_normalise((X * 8.0).copy(), clip=clip))
            except Exception as e:
                viols.append(('norm:raise:%s' % type(e).__name__, '%s clip=%s raised %r' % (tag, clip, e)))
                continue
            trans += 2
            nz = X != 0
            if a1.shape != X.shape or not np.array_equal(np.sign(a1[nz]), np.sign(X[nz])):
                viols.append(('norm:sign', '%s clip=%s: normalisation changed the sign of samples' % (tag, clip)))
            if not np.allclose(a1, a2, rtol=0, atol=1e-9):
                viols.append(('norm:scale', '%s clip=%s: normalised output depends on input scale (max diff %.3g)' % (tag, clip, np.max(np.abs(a1 - a2)))))
            if clip and not np.all(np.abs(a1) <= 1):
                viols.append(('norm:clip', '%s: |normalised| exceeds 1 with clip=True' % tag))
            if not clip and kind != 'noise-imfs' and not np.max(np.abs(a1)) <= 1.5:     # (tones converge; broadband columns need not)
                viols.append(('norm:magnitude', '%s: normalised amplitude reaches %.3g' % (tag, np.max(np.abs(a1)))))
    return Outcome(cls='struct', transitions=trans, viols=viols, nontrivial=ncol > 1)


def check_wide(case):
    from emd.spectra import frequency_transform
    _, name, m, sr, seed = case
    X = struct_signal(name, seed)
    tag = 'signal with %d columns method=%s' % (X.shape[1], m)
    try:
        allc = [np.asarray(a) for a in frequency_transform(X.copy(), sr, m)]
    except Exception as e:
        return Outcome(cls='wide', viols=[('wide:raise:%s' % type(e).__name__, '%s raised %r' % (tag, e))])
    viols = []
    for j in sorted(set([0, 1, 15, 16, X.shape[1] - 2, X.shape[1] - 1])):
        one = [np.asarray(a) for a in frequency_transform(X[:, j:j + 1].copy(), sr, m)]
        for nm_, a, b in zip(('phase', 'frequency', 'amplitude'), allc, one):
            if a.shape != X.shape or not np.allclose(a[:, j], b[:, 0], rtol=1e-9, atol=1e-9):
                viols.append(('wide:column', '%s: %s of column %d differs from transforming that column alone' % (tag, nm_, j)))
                break
    return Outcome(cls='wide', transitions=7, viols=viols, nontrivial=True)


def check_typed(case):
    """Integer- and float32-typed IMFs (e.g. raw ADC counts): same answer as for the float64 array of the same values."""
    from emd.spectra import frequency_transform
    from emd.utils import amplitude_normalise
    _, name, m, sr, seed = case
    Xf = np.round(struct_signal(name, seed) * (50.0 if name[0] == 64 else 3000.0))      # 3000: squares overflow int16
    viols = []
    trans = 0
    tag = 'signal %r (rounded to whole numbers) method=%s' % (name, m)
    try:
        ref = [np.asarray(a) for a in frequency_transform(Xf.copy(), sr, m)]
    except Exception as e:
        return Outcome(cls='typed', viols=[('typed:raise:%s' % type(e).__name__, '%s float64 raised %r' % (tag, e))])
    for dt, tol in ((np.int64, 1e-9), (np.int16, 1e-9), (np.float32, 1e-4)):
        try:
            got = [np.asarray(a) for a in frequency_transform(Xf.astype(dt), sr, m)]
        except Exception as e:
            viols.append(('typed:raise:%s' % type(e).__name__, '%s dtype %s raised %r' % (tag, np.dtype(dt).name, e)))
            continue
        trans += 1
        for nm_, a, b in zip(('phase', 'frequency', 'amplitude'), got, ref):
            scale = max(1.0, float(np.max(np.abs(b))))
            scale = max(1.0, float(np.nanmax(np.abs(b)))) if np.isfinite(b).any() else 1.0
            dphi = np.abs(np.angle(np.exp(1j * (a - b)))) if nm_ == 'phase' else np.abs(a - b)
            both_nan = np.isnan(a) & np.isnan(b)        # e.g. no envelope for a flat-topped column, in both runs
            dphi = np.where(both_nan, 0.0, dphi)
            if a.shape != b.shape or not np.max(dphi) <= tol * scale:
                viols.append(('typed:%s' % ('integer' if np.dtype(dt).kind == 'i' else 'float32'),
                              '%s: %s for dtype %s differs from the float64 result by %.3g' % (tag, nm_, np.dtype(dt).name, np.max(dphi))))
                break
    if m == 'nht':
        try:
            a = np.asarray(amplitude_normalise(Xf.astype(np.int64)))
            b = np.asarray(amplitude_normalise(Xf.copy()))
            trans += 1
            if a.shape != b.shape or not np.allclose(a, b, rtol=0, atol=1e-9):
                viols.append(('typed:normalise-integer', '%s: amplitude_normalise of the int64 array differs from the float64 result by %.3g' % (
                    tag, np.max(np.abs(a - b)))))
        except Exception as e:
            viols.append(('typed:raise:%s' % type(e).__name__, '%s amplitude_normalise(int64) raised %r' % (tag, e)))
    return Outcome(cls='typed', transitions=trans, viols=viols, nontrivial=True)


def check_struct3d(case):
    """Second-level IMFs come as [samples x imfs x imfs2]: same shape out, and every 2-d slice is transformed as if alone."""
    from emd.spectra import frequency_transform
    _, name, m, sr, seed = case
    X2 = struct_signal(name, seed)
    X3 = np.stack([X2, X2[:, ::-1] * 0.5], axis=2)          # [N x 3 x 2]
    tag = 'signal %r as [N x 3 x 2] method=%s' % (name, m)
    viols = []
    try:
        out3 = [np.asarray(a) for a in frequency_transform(X3.copy(), sr, m)]
    except Exception as e:
        return Outcome(cls='struct3d', viols=[('struct3d:raise:%s' % type(e).__name__, '%s raised %r' % (tag, e))])
    if not all(a.shape == X3.shape for a in out3):
        return Outcome(cls='struct3d', viols=[('struct3d:shape', '%s: output shapes %r' % (tag, [a.shape for a in out3]))])
    for k in range(X3.shape[2]):
        out2 = [np.asarray(a) for a in frequency_transform(X3[:, :, k].copy(), sr, m)]
        for nm, a3, a2 in zip(('phase', 'frequency', 'amplitude'), out3, out2):
            if not np.allclose(a3[:, :, k], a2, rtol=1e-9, atol=1e-9):
                viols.append(('struct3d:slice', '%s: %s of slice %d differs from transforming the slice alone (max diff %.3g)' % (
                    tag, nm, k, np.max(np.abs(a3[:, :, k] - a2)))))
                break
    IP = out3[0]
    if not (np.all(IP >= 0) and np.all(IP < 2 * np.pi)):
        viols.append(('struct3d:phase-range', '%s: phase outside [0, 2pi)' % tag))
    return Outcome(cls='struct3d', transitions=3, viols=viols, nontrivial=True)


def check_acc(case):
    from emd.spectra import frequency_transform
    _, (N, cyc, a, phi0), m, sr, seed = case
    kw = {}
    if '|' in m:
        m, sp = m.split('|')
        kw['smooth_phase'] = None if sp == 'None' else int(sp)
    t = np.arange(N)
    theta = 2 * np.pi * cyc * t / N + phi0
    x = a * np.cos(theta)
    f_true = cyc / N * sr
    tag = 'N=%d cycles=%g amp=%g phi0=%.3f method=%s sr=%g %r' % (N, cyc, a, phi0, m, sr, kw)
    viols = []
    try:
        IP, IF, IA = [np.asarray(v)[:, 0] for v in frequency_transform(x[:, None].copy(), sr, m, **kw)]
    except Exception as e:
        return Outcome(cls='acc', viols=[('acc:raise:%s' % type(e).__name__, '%s raised %r' % (tag, e))])
    lo, hi = int(0.2 * N), int(0.8 * N)
    sl = slice(lo, hi)
    if_err = np.median(np.abs(IF[sl] - f_true)) / f_true
    ia_err = np.median(np.abs(IA[sl] - a)) / a
    want_ip = np.mod(theta + np.pi / 2, 2 * np.pi)
    dphi = np.angle(np.exp(1j * (IP - want_ip)))
    ph_err = np.max(np.abs(dphi[sl]))
    ptol = 0.6 if m == 'quad' else 0.1
    ftol = 0.10 if m == 'quad' else 0.03
    exact = (m == 'hilbert' and float(cyc).is_integer())
    if exact:
        ok_if = np.max(np.abs(IF[sl] - f_true)) <= 1e-9 * sr
        ok_ia = np.max(np.abs(IA[sl] - a)) <= 1e-9 * a
        ok_ph = ph_err <= 1e-9
    else:
        ok_if, ok_ia, ok_ph = if_err <= ftol, ia_err <= 0.05, ph_err <= ptol
    if not ok_if:
        viols.append(('acc:frequency' + (':exact' if exact else ''), '%s: IF error %.3g (true %g, median estimate %g)' % (tag, if_err, f_true, np.median(IF[sl]))))
    if not ok_ia:
        viols.append(('acc:amplitude' + (':exact' if exact else ''), '%s: IA error %.3g (median estimate %g)' % (tag, ia_err, np.median(IA[sl]))))
    if not ok_ph:
        viols.append(('acc:phase' + (':exact' if exact else ''), '%s: max circular phase error %.3g rad' % (tag, ph_err)))
    if not (np.all(IP >= 0) and np.all(IP < 2 * np.pi)):
        bad = np.where((IP < 0) | (IP >= 2 * np.pi))[0]
        viols.append(('acc:phase-range', '%s: phase outside [0, 2pi) at samples %s: %r' % (tag, bad[:3].tolist(), IP[bad[:3]].tolist())))
    out = Outcome(cls='acc', transitions=1, viols=viols, nontrivial=not float(cyc).is_integer())
    return out


def snippet(case, kind):
    if case[0] != 'acc':
        return None
    _, (N, cyc, a, phi0), m, sr, seed = case
    return ('import numpy as np, emd\nt = np.arange(%d)\nx = %r*np.cos(2*np.pi*%r*t/%d + %r)\n'
            'IP, IF, IA = emd.spectra.frequency_transform(x[:, None], %r, %r)\n'
            'print(IP.min(), IP.max(), IP.max() < 2*np.pi, np.median(IF), np.median(IA))\n' % (N, a, cyc, N, phi0, sr, m))


def nonvacuity(rep, ctx):
    if not {'trip', 'struct', 'acc', 'struct3d', 'typed', 'wide'} <= set(rep.classes):
        return ['vacuous: outcome classes %r' % dict(rep.classes)]
    return []
