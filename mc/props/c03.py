"""C03 - IMFs are peeled one at a time from the running residual; caps are respected.

Space (explorer I):
 sift   : non-final signals of F x 12 option sets; caps 1..ncols(uncapped)+2; prefix equality + peeling oracle
 mask   : the same signals x mask configurations; caps 1..min(9, ncols+2); prefix equality + masked peeling oracle
 variants: ensemble / complete-ensemble / second-layer / masked second-layer x caps {1..6, None} x ensemble sizes
          x noise levels; shape / cap / finiteness oracle
"""
import itertools
import numpy as np

from ..engine.explore import Outcome
from . import signals
from .c01 import SUBGRID, opts_of

PID = 'C03'
TIMEOUT = 1800.0
RULE = ('sift/mask: every non-final F_A signal (length 6..L) and every F_B signal x option sets, all caps from 1 to '
        'ncols+2 in each case; masked sift also on records sifted right after a same-length record sharing head / tail / both ends, and on '
        'signals riding on a 1e7 offset; variants: every (variant, signal, nensembles, noise, cap) combination of the grid; '
        'non-trivial = the uncapped decomposition has >= 2 columns (sift/mask) or the cap is binding (variants)')
ASSUMPTIONS = ['capped and uncapped runs are the same deterministic computation, so prefixes are compared exactly',
               'peeling is compared to 1e-12 relative (same function, same input, but a separate call)',
               'the global numpy RNG is seeded before every stochastic call; pools are replaced by an in-process serial pool',
               'an uncapped run that raises EMDSiftCovergeError is counted and skipped (C04 judges convergence)']

MASKCFG = [
    {'mask_freqs': 'zc', 'mask_amp_mode': 'ratio_imf', 'nphases': 4},
    {'mask_freqs': 0.3, 'mask_amp_mode': 'ratio_sig', 'nphases': 1},
    {'mask_freqs': [0.3, 0.12, 0.05], 'mask_amp_mode': 'abs', 'nphases': 4, 'mask_amp': 0.7},
    {'mask_freqs': [0.25, 0.1, 0.04, 0.015, 0.006], 'mask_amp_mode': 'ratio_imf', 'nphases': 2, 'mask_amp': 2},
    {'mask_freqs': 0.12, 'mask_amp_mode': 'abs', 'nphases': 3, 'mask_step_factor': 3},
    {'mask_freqs': 0.3, 'mask_amp_mode': 'ratio_sig', 'nphases': 2, 'extrema_opts': {'pad_width': 1}},
    {'mask_freqs': 0.3, 'mask_amp_mode': 'ratio_imf', 'nphases': 2, 'mask_amp': [1.5, 0.7, 1.2, 0.9, 1.0, 1.0, 1.0, 1.0, 1.0]},
    {'mask_freqs': 'zc', 'mask_amp_mode': 'ratio_imf', 'nphases': 3, 'envelope_opts': {'interp_method': 'pchip'},
     'extrema_opts': {'parabolic_extrema': True}, 'imf_opts': {'sd_thresh': 0.2}},
    {'mask_freqs': [0.04, 0.25, 0.11, 0.3], 'mask_amp_mode': 'ratio_sig', 'nphases': 2},      # the user's list, in the user's order
]
CAPS = (1, 2, 3, 4, 5, 6, None)


def bounds(tier):
    if tier == 'quick':
        return {'max_len': 6, 'fb_sizes': (32,), 'cfg_stride': 4, 'var_signals': 3, 'nens': (1, 2, 4)}
    return {'max_len': 7, 'fb_sizes': (32, 64), 'cfg_stride': 1, 'var_signals': 8, 'nens': (1, 2, 4)}


VAR_SIGNALS = [('tone', 64, 2, 'lin', 'none'), ('noise', 100, 1, 'none', 'none'), ('tone', 32, 3, 'none', 'am'),
               ('walk', 64, 4, 'none', 'none'), ('tone', 64, 1, 'quad', 'fm'), ('int', 32, 2, 'none', 'none'),
               ('noise', 64, 2, 'none', 'none'), ('plateau', 64, 2, 'none', 'none')]


def cases(tier, seed):
    b = bounds(tier)
    k = 0
    for idx in signals.fa_indices(4, 6, b['max_len']):
        mx, mn = signals.strict_extrema(idx)
        if len(mx) < 2 or len(mn) < 2:
            continue
        k += 1
        for ci in range(k % b['cfg_stride'], 12, b['cfg_stride']):
            yield ('sift', 'fa', idx, ci, seed)
        yield ('mask', 'fa', idx, k % len(MASKCFG), seed)
    for name in signals.fb_names(b['fb_sizes']):
        k += 1
        for ci in range(k % b['cfg_stride'], 12, b['cfg_stride']):
            if tier == 'quick' and name[0] in ('noise', 'walk') and ci % 8 in (3, 4):
                continue    # rilling on noise needs ~1000 iterations per IMF: thorough tier only
            yield ('sift', 'fb', name, ci, seed)
        for mi in range(len(MASKCFG)):
            yield ('mask', 'fb', name, mi, seed)
    # larger scope: a noise record long enough for the uncapped sift to find 9 or more IMFs
    yield ('sift', 'gen', ('noise4096',), 0, seed)
    # larger scope: a record sifted right after a different record of the same length that shares its first samples,
    # its last samples, or both (anything remembered from the earlier record must not leak into this one)
    for n in (1536,) if tier == 'quick' else (1536, 3000):
        for share in ('head', 'tail', 'ends'):
            for mi in range(len(TWINCFG)):
                yield ('mask-twin', 'gen', (share, n), mi, seed)
    # signals riding on an offset many orders of magnitude above their own variation
    for name in signals.fb_names((32,))[:6]:
        for mi in (0, 1, 3, 5):
            yield ('mask', 'fb-off', name, mi, seed)
    for name in VAR_SIGNALS[:b['var_signals']]:
        for cap in CAPS:
            for E in b['nens']:
                for noise in (0.0, 0.2):
                    for mode in ('single', 'flip'):
                        yield ('ens', 'fb', name, (cap, E, noise, mode), seed)
                        yield ('ceemd', 'fb', name, (cap, E, noise, mode), seed)
            for ci in (0, 5):
                yield ('second', 'fb', name, (cap, ci), seed)
            yield ('second-noargs', 'fb', name, (cap,), seed)
            yield ('msecond', 'fb', name, (cap,), seed)


def decode_case(c):
    c = list(c)
    c[2] = tuple(c[2])
    if isinstance(c[3], list):
        c[3] = tuple(c[3])
    return tuple(c)


TWINCFG = [MASKCFG[0], MASKCFG[7], {'mask_freqs': 'if', 'mask_amp_mode': 'ratio_sig', 'nphases': 2}]


def twin_pair(share, n):
    """(record under test, the record sifted just before it): equal length, equal outside the named region."""
    t = np.arange(n)
    x = np.cos(2 * np.pi * 0.05 * t) + 0.5 * np.cos(2 * np.pi * 0.011 * t + 0.4) + 0.3 * t / n
    reg = {'head': slice(int(0.75 * n), n), 'tail': slice(0, int(0.25 * n)), 'ends': slice(int(0.4 * n), int(0.6 * n))}[share]
    y = x.copy()
    y[reg] += 0.9 * np.cos(2 * np.pi * 0.23 * t[reg])
    return x, y


def signal_of(case):
    if case[1] == 'fa':
        return signals.fa_signal(case[2], 4, case[4])
    if case[1] == 'fb-off':
        return signals.fb_signal(case[2], case[4]) + (1e7 if case[4] % 2 == 0 else -1e7)
    if case[1] == 'gen' and case[0] == 'mask-twin':
        return twin_pair(*case[2])[0]
    if case[1] == 'gen':
        tab = signals.noise_table(case[4])
        return np.concatenate([tab[i % 8] * (1 + 0.1 * i) for i in range(16)])
    return signals.fb_signal(case[2], case[4])


def describe(case, x):
    return 'x=%s' % (x.tolist() if len(x) <= 12 else 'F_B%r' % (case[2],))


def relclose(a, b, x):
    return a.shape == b.shape and np.max(np.abs(a - b)) <= 1e-12 * (1 + np.max(np.abs(x)))


def check_case(case):
    from ..engine import forkpool
    kind = case[0]
    if kind == 'sift':
        return check_sift(case)
    # worker placement is irrelevant here (C07/C08 own it): run the pools in-process
    with forkpool.installed(forkpool.SerialMP()):
        if kind in ('mask', 'mask-twin'):
            return check_mask(case)
        return check_variant(case)


def basic_shape(res, N, cap, tag, viols, what):
    res = np.asarray(res)
    if res.ndim != 2 or res.shape[0] != N or res.dtype.kind != 'f':
        viols.append(('%s:shape' % what, '%s: result shape %r dtype %s for %d samples' % (tag, res.shape, res.dtype, N)))
        return False
    if cap is not None and res.shape[1] > cap:
        viols.append(('%s:cap-exceeded' % what, '%s: %d columns for cap %r' % (tag, res.shape[1], cap)))
        return False
    if not np.all(np.isfinite(res)):
        viols.append(('%s:non-finite' % what, '%s: non-finite values' % tag))
        return False
    return True


def check_sift(case):
    from emd.sift import sift, get_next_imf
    from emd.support import EMDSiftCovergeError
    x = signal_of(case)
    N = len(x)
    (rule, par), step, interp, pad = SUBGRID[case[3]]
    o = opts_of(rule, par, step, interp, pad)
    tag = '%s stop=%s%r step=%.3g interp=%s pad=%d' % (describe(case, x), rule, par, step, interp, pad)
    viols = []
    trans = 0
    try:
        full = np.asarray(sift(x.copy(), **o))
    except EMDSiftCovergeError:
        return Outcome(cls='converge-error', nontrivial=False)
    except Exception as e:
        return Outcome(cls='raise', viols=[('sift:raise:%s' % type(e).__name__, '%s raised %r' % (tag, e))])
    n = full.shape[1]
    if not basic_shape(full, N, None, tag, viols, 'sift'):
        return Outcome(cls='sift', viols=viols)
    for k in range(1, n + 3):
        try:
            capped = np.asarray(sift(x.copy(), max_imfs=k, **o))
        except Exception as e:
            viols.append(('sift:raise:%s' % type(e).__name__, '%s max_imfs=%d raised %r' % (tag, k, e)))
            continue
        trans += 1
        if not basic_shape(capped, N, k, tag + ' max_imfs=%d' % k, viols, 'sift'):
            continue
        if capped.shape[1] != min(k, n) or not np.array_equal(capped, full[:, :min(k, n)]):
            viols.append(('sift:prefix', '%s: max_imfs=%d gives %d columns, uncapped run has %d; prefix equal: %s' % (
                tag, k, capped.shape[1], n, capped.shape[1] <= n and np.array_equal(capped, full[:, :capped.shape[1]]))))
    # the cap given through the other documented routes: call-time keyword to the callable of a configuration,
    # an entry of the configuration, and sift's second positional... (max_imfs is keyword-only in practice: kwargs routes)
    if n >= 2:
        from emd.sift import get_config
        k = n - 1
        routes = []
        try:
            cfg = get_config('sift')
            for g_ in ('imf_opts', 'envelope_opts', 'extrema_opts'):
                for k_, v_ in o[g_].items():
                    cfg['%s/%s' % (g_, k_)] = v_
            routes.append(('get_func()(x, max_imfs=k)', lambda: cfg.get_func()(x.copy(), max_imfs=k)))
            cfg2 = get_config('sift')
            for g_ in ('imf_opts', 'envelope_opts', 'extrema_opts'):
                for k_, v_ in o[g_].items():
                    cfg2['%s/%s' % (g_, k_)] = v_
            cfg2['max_imfs'] = k
            routes.append(('sift(x, **config) with config[max_imfs]=k', lambda: sift(x.copy(), **cfg2)))
            routes.append(('config.get_func()(x) with config[max_imfs]=k', lambda: cfg2.get_func()(x.copy())))
        except Exception as e:
            viols.append(('sift:route-raise', '%s: building a configuration raised %r' % (tag, e)))
        for rname, f_ in routes:
            try:
                got = np.asarray(f_())
            except Exception as e:
                viols.append(('sift:route-raise', '%s: %s raised %r' % (tag, rname, e)))
                continue
            trans += 1
            if got.shape != (N, k) or not np.array_equal(got, full[:, :k]):
                viols.append(('sift:cap-route', '%s: cap %d through %s gives %r columns / a different prefix' % (tag, k, rname, got.shape)))
    X = x[:, None]
    for k in range(n):
        resid = X - full[:, :k].sum(axis=1)[:, None]
        try:
            want, _ = get_next_imf(resid, envelope_opts=o['envelope_opts'], extrema_opts=o['extrema_opts'], **o['imf_opts'])
        except Exception as e:
            viols.append(('sift:peel-raise', '%s: get_next_imf on residual %d raised %r' % (tag, k, e)))
            break
        trans += 1
        if not relclose(np.asarray(want)[:, 0], full[:, k], x):
            viols.append(('sift:peeling', '%s: column %d is not get_next_imf(input - first %d columns) (max diff %.3g)' % (
                tag, k, k, np.max(np.abs(np.asarray(want)[:, 0] - full[:, k])))))
            break
    return Outcome(cls='sift:%s' % ('multi' if n >= 2 else 'single'), transitions=trans, viols=viols, nontrivial=n >= 2)


def check_mask(case):
    from emd.sift import mask_sift, get_next_imf_mask
    from emd.support import EMDSiftCovergeError
    x = signal_of(case)
    N = len(x)
    cfg = dict(MASKCFG[case[3]] if case[0] == 'mask' else TWINCFG[case[3]])
    if isinstance(cfg['mask_freqs'], list):
        cfg['mask_freqs'] = np.array(cfg['mask_freqs'])
    if isinstance(cfg.get('mask_amp'), list) and case[4] % 2 == 0:
        cfg['mask_amp'] = np.array(cfg['mask_amp'])
    tag = '%s mask cfg %r' % (describe(case, x), cfg)
    viols = []
    trans = 0
    if case[0] == 'mask-twin':
        tag = 'record of %d samples sifted after another one sharing its %s, ' % (N, case[2][0]) + tag
        try:
            mask_sift(twin_pair(*case[2])[1], **dict(cfg))
        except Exception:
            pass

    def call(**kw):
        c = dict(cfg)
        c.update(kw)
        if isinstance(c['mask_freqs'], np.ndarray):
            c['mask_freqs'] = c['mask_freqs'].copy()
        return mask_sift(x.copy(), **c)
    try:
        full, freqs = call(ret_mask_freq=True)
    except EMDSiftCovergeError:
        return Outcome(cls='converge-error', nontrivial=False)
    except Exception as e:
        return Outcome(cls='raise', viols=[('mask:raise:%s' % type(e).__name__, '%s raised %r' % (tag, e))])
    full = np.asarray(full)
    n = full.shape[1]
    if isinstance(cfg['mask_freqs'], np.ndarray):
        given = np.asarray(MASKCFG[case[3]]['mask_freqs'] if case[0] == 'mask' else cfg['mask_freqs'], dtype=float)
        used = np.asarray(freqs, dtype=float).reshape(-1)
        if len(used) < n or not np.array_equal(used[:n], given[:n]):
            viols.append(('mask:freqs-not-the-given-ones', '%s: returned mask frequencies %s, the list given was %s' % (tag, used.tolist(), given.tolist())))
    limit = 9 if not isinstance(cfg['mask_freqs'], np.ndarray) else len(cfg['mask_freqs'])
    if not basic_shape(full, N, limit, tag, viols, 'mask'):
        return Outcome(cls='mask', viols=viols)
    for k in range(1, min(limit, n + 2) + 1):
        try:
            capped = np.asarray(call(max_imfs=k))
        except EMDSiftCovergeError:
            continue
        except Exception as e:
            viols.append(('mask:raise:%s' % type(e).__name__, '%s max_imfs=%d raised %r' % (tag, k, e)))
            continue
        trans += 1
        if not basic_shape(capped, N, k, tag + ' max_imfs=%d' % k, viols, 'mask'):
            continue
        if capped.shape[1] != min(k, n) or not np.array_equal(capped, full[:, :min(k, n)]):
            viols.append(('mask:prefix', '%s: max_imfs=%d gives %d columns, reference run has %d' % (tag, k, capped.shape[1], n)))
    X = x[:, None]
    mode = cfg['mask_amp_mode']
    mamp0 = cfg.get('mask_amp', 1)
    for k in range(n):
        resid = X - full[:, :k].sum(axis=1)[:, None]
        mamp = mamp0[k] if isinstance(mamp0, (list, tuple, np.ndarray)) else mamp0
        if mode == 'abs':
            amp = mamp
        elif mode == 'ratio_sig' or k == 0:
            amp = mamp * X.std()
        else:
            amp = mamp * full[:, k - 1].std()
        try:
            want, _ = get_next_imf_mask(resid, freqs[k], amp, nphases=cfg['nphases'], imf_opts=cfg.get('imf_opts'),
                                        envelope_opts=cfg.get('envelope_opts'), extrema_opts=cfg.get('extrema_opts'))
        except Exception as e:
            viols.append(('mask:peel-raise', '%s: get_next_imf_mask on residual %d raised %r' % (tag, k, e)))
            break
        trans += 1
        if not relclose(np.asarray(want)[:, 0], full[:, k], x):
            viols.append(('mask:peeling', '%s: column %d is not the masked extraction of (input - first %d columns) (max diff %.3g)' % (
                tag, k, k, np.max(np.abs(np.asarray(want)[:, 0] - full[:, k])))))
            break
    fam = 'twin' if case[0] == 'mask-twin' else ('mask-offset' if case[1] == 'fb-off' else 'mask')
    return Outcome(cls='%s:%s' % (fam, 'multi' if n >= 2 else 'single'), transitions=trans, viols=viols, nontrivial=n >= 2)


def check_variant(case):
    import emd
    from emd.sift import (ensemble_sift, complete_ensemble_sift, sift_second_layer, mask_sift_second_layer,
                          sift, mask_sift)
    from emd.support import EMDSiftCovergeError
    kind = case[0]
    x = signal_of(case)
    N = len(x)
    par = case[3]
    cap = par[0]
    viols = []
    tag = '%s %s%r' % (describe(case, x), kind, par)
    np.random.seed(1234 + case[4])
    binding = False
    try:
        if kind in ('ens', 'ceemd'):
            _, E, noise, mode = par
            f = ensemble_sift if kind == 'ens' else complete_ensemble_sift
            res = f(x.copy(), nensembles=E, ensemble_noise=noise, noise_mode=mode, max_imfs=cap, nprocesses=1)
            if kind == 'ceemd':
                if not (isinstance(res, tuple) and len(res) == 2):
                    return Outcome(cls=kind, viols=[('ceemd:return', '%s: expected (imf, noise)' % tag)])
                res, nz = res
                nz = np.asarray(nz)
                if nz.shape != (N, E) or not np.all(np.isfinite(nz)):
                    viols.append(('ceemd:noise-shape', '%s: noise shape %r' % (tag, nz.shape)))
            basic_shape(res, N, cap, tag, viols, kind)
            binding = cap is not None and np.asarray(res).ndim == 2 and np.asarray(res).shape[1] == cap
        else:
            # second-layer sifts work on the amplitude envelopes of a first-layer decomposition
            first = sift(x.copy(), max_imfs=3)
            IA = np.abs(first) + 0.1
            M = IA.shape[1]
            if kind == 'second':
                (rule, p_), step, interp, pad = SUBGRID[par[1]]
                args = opts_of(rule, p_, step, interp, pad)
                if cap is not None:
                    args['max_imfs'] = cap
                res = sift_second_layer(IA.copy(), sift_func=sift, sift_args=args)
            elif kind == 'second-noargs':
                if cap is None:
                    res = sift_second_layer(IA.copy())
                else:
                    res = sift_second_layer(IA.copy(), sift_args={'max_imfs': cap})
            else:
                freqs = np.array([0.2, 0.1, 0.05, 0.02, 0.01, 0.005])
                args = None if cap is None else {'max_imfs': cap}
                res = mask_sift_second_layer(IA.copy(), freqs, sift_args=args)
            res = np.asarray(res)
            want_cap = cap if cap is not None else M
            if res.ndim != 3 or res.shape[0] != N or res.shape[1] != M or res.dtype.kind != 'f':
                viols.append(('%s:shape' % kind, '%s: result shape %r for input [%d x %d]' % (tag, res.shape, N, M)))
            elif res.shape[2] > want_cap:
                viols.append(('%s:cap-exceeded' % kind, '%s: %d second-level components for cap %r' % (tag, res.shape[2], cap)))
            elif not np.all(np.isfinite(res)):
                viols.append(('%s:non-finite' % kind, '%s: non-finite values' % tag))
            else:
                # every first-layer IMF must actually have been decomposed (slot 0 is its first second-level IMF)
                for m in range(M):
                    if not np.any(res[:, m, :] != 0):
                        viols.append(('%s:imf-skipped' % kind, '%s: first-layer IMF %d was not decomposed (all zeros)' % (tag, m)))
                        break
            binding = cap is not None
    except EMDSiftCovergeError:
        return Outcome(cls='converge-error', nontrivial=False)
    except Exception as e:
        viols.append(('%s:raise:%s' % (kind, type(e).__name__), '%s raised %r' % (tag, e)))
    return Outcome(cls=kind, transitions=1, viols=viols, nontrivial=binding)


def snippet(case, kind):
    return None


def nonvacuity(rep, ctx):
    need = {'sift:multi', 'mask:multi', 'twin:multi', 'mask-offset:multi', 'ens', 'ceemd', 'second', 'second-noargs', 'msecond'}
    if not need <= set(rep.classes):
        return ['vacuous: outcome classes %r' % dict(rep.classes)]
    return []
