"""C12 - cycle detection partitions the phase series at its phase wraps.

Space (explorer I): every sequence of length 1..L over a 5-value phase alphabet x phase_step x
input layout {vector, column, two columns}; both return_good settings in every case; plus a finite
grid of long synthetic phases.  Oracle: wrap positions recomputed from the phase.
"""
import itertools
import numpy as np

from ..engine.explore import Outcome, Refill, Holder

_refill = Refill()
_holder = Holder()
from ..engine import enum

PID = 'C12'
TIMEOUT = 10.0
RULE = ('every phase sequence of length 1..L over a 5-value alphabet in [0,2pi) x 3 phase_step values x '
        '3 layouts, plus a fixed grid of long synthetic phase series; non-trivial = the series has at least one wrap')
ASSUMPTIONS = ['phase values are drawn from a 5-value alphabet strictly inside [0, 2pi); wraps never sit within '
               'rounding distance of phase_step (alphabets chosen so)',
               'the reference partition is recomputed from the statement: wrap at i iff |p[i]-p[i-1]| > phase_step']

ALPHABETS = [
    (0.2, 1.6, 3.1, 4.7, 6.1),
    (0.05, 1.3, 3.0, 4.9, 6.2),
    (0.1, 2.0, 3.3, 4.4, 6.0),
    (0.25, 1.1, 2.6, 5.2, 6.25),
]
STEPS = (np.pi, 1.5 * np.pi, 1.8 * np.pi)
LAYOUTS = ('vector', 'column', 'two', 'nowrap-first')


def bounds(tier):
    return {'max_len': 6 if tier == 'quick' else 8, 'alphabet': 5, 'steps': 3, 'layouts': 4}


def alphabet(seed):
    return ALPHABETS[seed % len(ALPHABETS)]


def long_phases(seed):
    """Finite grid of long synthetic wrapped phases (deterministic)."""
    out = []
    tab = np.array([0.31, -0.42, 0.17, 0.55, -0.23, -0.61, 0.48, 0.09, -0.37, 0.26, 0.66, -0.14, -0.5])
    tab = np.roll(tab, seed % len(tab))
    for n, cyc in ((200, 4.0), (200, 7.3), (331, 12.5), (97, 1.5)):
        t = np.arange(n) / n
        for kind in ('const', 'chirp', 'jitter', 'reverse1', 'reverse2'):
            ph = 2 * np.pi * cyc * t + 0.3
            if kind == 'chirp':
                ph = 2 * np.pi * cyc * (t + 0.8 * t ** 2) + 0.3
            elif kind == 'jitter':
                ph = ph + 0.6 * np.tile(tab, n // len(tab) + 1)[:n]
            elif kind == 'reverse1':
                ph = ph.copy()
                ph[n // 2:] = ph[n // 2] - (ph[n // 2:] - ph[n // 2]) * 0.5
                ph[2 * n // 3:] = ph[2 * n // 3] + 2 * np.pi * cyc * (t[2 * n // 3:] - t[2 * n // 3])
            elif kind == 'reverse2':
                ph = ph + 1.9 * np.sin(2 * np.pi * 3.3 * t)
            out.append(('%s-%d-%g' % (kind, n, cyc), np.mod(ph, 2 * np.pi)))
    return out


def cases(tier, seed):
    L = bounds(tier)['max_len']
    for s in enum.sequences(range(5), 1, L):
        for si in range(3):
            for lay in LAYOUTS:
                yield ('seq', s, si, lay, seed)
    for name, _ in long_phases(seed):
        for si in range(3):
            for lay in LAYOUTS:
                yield ('long', name, si, lay, seed)
    # integer-typed phases (whole radians are legitimate phase values)
    for s in enum.sequences(range(5), 1, min(L, 6)):
        yield ('seqint', s, 1, 'vector', seed)
    # larger scope: many thousands of cycles in one column (label counters, caches and block sizes live here)
    for ncyc in (300, 33000) if tier == 'quick' else (300, 5000, 33000, 70000):
        yield ('giant', ncyc, 0, 'vector', seed)     # phase_step = pi: every cycle boundary of the 3..6-sample cycles is a wrap
    # larger scope: recordings beyond 2^16 / 2^17 samples whose wraps fall exactly on powers of two and their multiples
    # (cycle lengths 128, 128, 256, 512, ... and a constant 4096), plus one with wraps one sample either side
    for what in ('pow2', 'const4096', 'pow2-1', 'pow2+1'):
        yield ('edges', what, 0, 'vector', seed)


def decode_case(c):
    c = list(c)
    if c[0] in ('seq', 'seqint'):
        c[1] = tuple(c[1])
    return tuple(c)


INT_ALPHABET = (0, 1, 3, 5, 6)


def giant_phase(ncyc, seed):
    """ncyc cycles of 3..6 samples each (deterministic pattern), strictly increasing inside a cycle."""
    lens = 3 + (np.arange(ncyc) * 7 + seed) % 4
    start = np.cumsum(lens) - lens
    idx = np.arange(int(lens.sum()))
    cyc = np.repeat(np.arange(ncyc), lens)
    within = idx - start[cyc]
    return (within + 0.5) / lens[cyc] * 2 * np.pi


def edge_phase(what):
    if what == 'const4096':
        lens = [4096] * 40
    else:
        lens = [128, 128] + [2 ** k for k in range(8, 18)] + [2 ** 17, 1000]
        if what == 'pow2-1':
            lens[0] -= 1
        elif what == 'pow2+1':
            lens[0] += 1
    return np.concatenate([(np.arange(n) + 0.5) / n * 2 * np.pi for n in lens])


def build_phase(case):
    kind, s, si, lay, seed = case
    if kind == 'edges':
        col = edge_phase(s)
        return col.copy(), [col]
    if kind == 'seq':
        a = np.array(alphabet(seed))
        col = a[list(s)]
    elif kind == 'seqint':
        col = np.array(INT_ALPHABET, dtype=np.int64)[list(s)]
    elif kind == 'giant':
        col = giant_phase(s, seed)
    else:
        col = dict(long_phases(seed))[s]
    if lay == 'vector':
        return col.copy(), [col]
    if lay == 'column':
        return col[:, None].copy(), [col]
    if lay == 'nowrap-first':
        # a wrap-free column (a trend: less than one cycle) placed BEFORE the column under test
        flat = np.linspace(0.2, 1.1, len(col)) if col.dtype.kind == 'f' else np.zeros(len(col), dtype=col.dtype)
        return np.c_[flat, col], [flat, col]
    col2 = col[::-1].copy()
    if kind == 'seq':
        col2 = np.array(alphabet(seed))[[(v + 2) % 5 for v in s]]
    return np.c_[col, col2], [col, col2]


def ref_partition(col, step):
    """Reference: labels for return_good=False, and the list of wrap-delimited segments."""
    n = len(col)
    colf = np.asarray(col, dtype=float)
    mask = np.zeros(n, dtype=bool)
    mask[1:] = np.abs(np.diff(colf)) > step
    wraps = np.where(mask)[0].tolist()
    if not wraps:
        return np.full(n, -1, dtype=int), []
    lab = np.cumsum(mask).astype(int)
    bnd = [0] + wraps + [n]
    return lab, [(bnd[i], bnd[i + 1]) for i in range(len(bnd) - 1)]


def runs_of(v):
    """Maximal runs (start, stop, value) of a 1-D int vector."""
    out = []
    i = 0
    n = len(v)
    while i < n:
        j = i
        while j + 1 < n and v[j + 1] == v[i]:
            j += 1
        out.append((i, j + 1, int(v[i])))
        i = j + 1
    return out


def check_good_structure(lab, segs):
    """Labels of a return_good=True call must be an order-preserving renumbering of a subset of segs."""
    lab = np.asarray(lab)
    nxt = 0
    segset = set(segs)
    for a, b, v in runs_of(lab):
        if v == -1:
            continue
        if v != nxt:
            return 'labels not consecutive in time order (saw %d, expected %d)' % (v, nxt)
        if (a, b) not in segset:
            return 'labelled run [%d,%d) is not a wrap-delimited segment %r' % (a, b, segs)
        nxt += 1
    return None


def check_case(case):
    from emd.cycles import get_cycle_vector, get_cycle_inds
    step = STEPS[case[2]]
    phase, cols = build_phase(case)
    viols = []
    anywrap = False
    trans = 0
    for rg in (False, True, 'read-only'):
        ph_in = phase.copy()
        if rg == 'read-only':
            # a read-only array (memory map, broadcast view) with the same values must simply work
            ph_in.setflags(write=False)
            rg = False
            try:
                out = get_cycle_vector(ph_in, return_good=False, phase_step=step)
                if not np.array_equal(ph_in, phase):
                    viols.append(('input-modified', '%s: the phase array was changed' % describe(case)))
            except Exception as e:
                viols.append(('raise:%s:read-only-input' % type(e).__name__, '%r (read-only array) raised %r' % (describe(case), e)))
                continue
            trans += 1
            lab0 = ref_partition(cols[0], step)[0]
            if np.asarray(out).shape[0] != len(lab0) or not np.array_equal(np.asarray(out)[:, 0], lab0):
                viols.append(('all:labels:read-only-input', '%s: read-only input gives different labels' % describe(case)))
            continue
        try:
            # a caller-owned buffer refilled in place from case to case (one per shape / dtype)
            ph_in = _refill.primed(phase, 'phase', lambda b_: get_cycle_vector(b_, return_good=rg, phase_step=step))
            out = get_cycle_vector(ph_in, return_good=rg, phase_step=step)
            for m_ in _holder.swap(out, 'get_cycle_vector %s return_good=%s' % (describe(case), rg)):
                viols.append(('earlier-result-changed', m_))
            if not np.array_equal(ph_in, phase):
                viols.append(('input-modified', '%s: the phase array was changed' % describe(case)))
        except Exception as e:  # "detection never fails"
            viols.append(('raise:%s:good=%s' % (type(e).__name__, rg), '%r raised %r' % (describe(case), e)))
            continue
        trans += 1
        out = np.asarray(out)
        if len(cols[0]) <= 8:
            # the deprecated alias is the same function
            try:
                import warnings
                with warnings.catch_warnings():
                    warnings.simplefilter('ignore')
                    alias = np.asarray(get_cycle_inds(phase.copy(), return_good=rg, phase_step=step))
                if alias.shape != out.shape or not np.array_equal(alias, out):
                    viols.append(('alias-differs', '%s return_good=%s: get_cycle_inds gives %s, get_cycle_vector %s' % (describe(case), rg, alias.tolist(), out.tolist())))
            except Exception as e:
                viols.append(('raise:%s:alias' % type(e).__name__, '%s: get_cycle_inds raised %r' % (describe(case), e)))
        if len(cols[0]) <= 8:
            # arguments by position in the documented order (phase, return_good, mask, imf, phase_step), and an
            # all-True validity mask given as the documented vector: both are the same request
            for wname, f_ in (('positional arguments', lambda: get_cycle_vector(phase.copy(), rg, None, None, step)),
                              ('an all-True mask vector', lambda: get_cycle_vector(phase.copy(), return_good=rg, mask=np.ones(len(cols[0]), dtype=bool), phase_step=step))):
                try:
                    alt = np.asarray(f_())
                    if alt.shape != out.shape or not np.array_equal(alt, out):
                        viols.append(('call-form-differs', '%s return_good=%s: with %s the labels are %s, else %s' % (describe(case), rg, wname, alt.tolist(), out.tolist())))
                except Exception as e:
                    viols.append(('raise:%s:call-form' % type(e).__name__, '%s return_good=%s with %s raised %r' % (describe(case), rg, wname, e)))
        if out.shape != (len(cols[0]), len(cols)) or out.dtype.kind not in 'iu':
            viols.append(('shape', '%s: output shape/dtype %r %r' % (describe(case), out.shape, out.dtype)))
            continue
        for ci, col in enumerate(cols):
            lab, segs = ref_partition(col, step)
            anywrap = anywrap or bool(segs)
            got = out[:, ci]
            if not rg:
                if not np.array_equal(got, lab):
                    bad = np.where(got != lab)[0]
                    if len(bad) == 1 and bad[0] == len(col) - 1:
                        kind = 'all:last-sample'
                    else:
                        kind = 'all:labels'
                    viols.append((kind, '%s col %d: got %s expected %s' % (describe(case), ci, got.tolist()[:40], lab.tolist()[:40])))
            else:
                msg = check_good_structure(got, segs)
                if msg is None and not segs and np.any(got != -1):
                    msg = 'labels on a wrap-free series'
                if msg:
                    viols.append(('good:structure', '%s col %d: %s; got %s' % (describe(case), ci, msg, got.tolist()[:40])))
    if case[0] in ('giant', 'edges') and not viols:
        # state between calls at the larger scope: right after the labelled recording, a wrap-free series of the SAME shape
        # (all -1), then two-column inputs of one shape whose wrap-free column changes place
        n = len(cols[0])
        flat = np.linspace(0.2, 1.1, n)
        lab = ref_partition(cols[0], step)[0]
        none = np.full(n, -1, dtype=int)
        for hname, mk, want in (('wrap-free series of the same shape', lambda: flat.reshape(phase.shape).copy(), [none]),
                                ('columns (recording, wrap-free)', lambda: np.c_[cols[0], flat], [lab, none]),
                                ('columns (wrap-free, recording)', lambda: np.c_[flat, cols[0]], [none, lab]),
                                ('columns (recording, wrap-free) again', lambda: np.c_[cols[0], flat], [lab, none])):
            for rg in (False, True):
                try:
                    out = np.asarray(get_cycle_vector(mk(), return_good=rg, phase_step=step))
                except Exception as e:
                    viols.append(('raise:%s:history' % type(e).__name__, '%s then %s raised %r' % (describe(case), hname, e)))
                    continue
                trans += 1
                for ci, w in enumerate(want):
                    got = out[:, ci] if out.ndim == 2 and out.shape[1] > ci and out.shape[0] == n else None
                    if got is None:
                        viols.append(('shape:history', '%s then %s: output shape %r' % (describe(case), hname, out.shape)))
                        break
                    if w is none and np.any(got != -1):
                        viols.append(('history:labels-on-wrap-free', '%s then %s (return_good=%s): wrap-free column %d carries labels up to %d'
                                      % (describe(case), hname, rg, ci, int(got.max()))))
                    elif w is not none and not rg and not np.array_equal(got, w):
                        viols.append(('history:labels', '%s then %s: column %d labels differ from the wrap partition' % (describe(case), hname, ci)))
    return Outcome(cls='wraps' if anywrap else 'nowrap', transitions=trans, viols=viols, nontrivial=anywrap)


def describe(case):
    kind, s, si, lay, seed = case
    if kind == 'seq':
        return 'phase=%s step=%.4f layout=%s' % ([alphabet(seed)[i] for i in s], STEPS[si], lay)
    if kind == 'seqint':
        return 'integer-typed phase=%s step=%.4f' % ([INT_ALPHABET[i] for i in s], STEPS[si])
    if kind == 'giant':
        return 'synthetic phase with %d cycles of 3..6 samples, step=%.4f' % (s, STEPS[si])
    if kind == 'edges':
        return 'recording of %d samples with wraps at %s, step=%.4f' % (len(edge_phase(s)), s, STEPS[si])
    return 'long phase %s step=%.4f layout=%s' % (s, STEPS[si], lay)


def snippet(case, kind):
    kind_, s, si, lay, seed = case
    if kind_ != 'seq':
        return None
    vals = [alphabet(seed)[i] for i in s]
    return ('import numpy as np, emd\n'
            'p = np.array(%r)\n'
            'print(emd.cycles.get_cycle_vector(p, return_good=False, phase_step=%r)[:, 0])\n'
            'print(emd.cycles.get_cycle_vector(p, return_good=True, phase_step=%r)[:, 0])\n' % (vals, STEPS[si], STEPS[si]))


def nonvacuity(rep, ctx):
    errs = []
    if rep.classes.get('wraps', 0) == 0 or rep.classes.get('nowrap', 0) == 0:
        errs.append('vacuous: outcome classes %r' % dict(rep.classes))
    return errs
