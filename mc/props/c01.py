"""C01 - the classic sift is a complete additive decomposition of its input.

Space (explorer I): signal family F (every 4-level sequence of length 3..L, the structured grid F_B) x option grid G
(8 stop rules x 3 step sizes x 3 interpolation methods x 4 pad widths = 288 configurations), no IMF cap, no energy
threshold.  Oracle from the statement: unless the last column's absolute sum is below sift_thresh, the columns sum
to the input and the last column is non-oscillatory.
"""
import functools
import itertools
import numpy as np

from ..engine.explore import Outcome, Holder

_holder = Holder()
from . import signals

PID = 'C01'
TIMEOUT = 300.0
RULE = ('every signal of F x every configuration of G (signals whose input already has too few extrema run a 12-point '
        'sub-grid, all take the same one-evaluation path); non-trivial = the decomposition has >= 2 columns')
ASSUMPTIONS = ['EMDSiftCovergeError raised by an extraction is outside C01 (C04 judges it) and is only counted',
               'rounding tolerance 1e-9*(1+max|X|)*ncols on the reconstruction']

STOPS = (('sd', 0.05), ('sd', 0.1), ('sd', 0.3), ('rilling', (0.05, 0.5, 0.05)), ('rilling', (0.1, 0.5, 0.1)),
         ('fixed', 1), ('fixed', 2), ('fixed', 5))
STEPS = (1.0, 0.5, 1.0 / 3)
INTERPS = ('splrep', 'pchip', 'mono_pchip')
PADS = (1, 2, 3, 5)

_state = {'env_calls': 0, 'last_none': False, 'paths': []}
_orig = {}


def worker_init():
    import emd.sift as S
    if 'env' in _orig:
        return
    _orig['env'] = S.interp_envelope
    _orig['gni'] = S.get_next_imf

    @functools.wraps(_orig['env'])          # (configuration templates are harvested from the live signatures)
    def env(*a, **k):
        r = _orig['env'](*a, **k)
        _state['env_calls'] += 1
        # envelopes are evaluated in (upper, lower) pairs: remember whether either of the last pair was missing
        if _state['env_calls'] % 2 == 1:
            _state['last_none'] = r is None
        else:
            _state['last_none'] = _state['last_none'] or r is None
        return r

    @functools.wraps(_orig['gni'])
    def gni(*a, **k):
        _state['env_calls'] = 0
        _state['last_none'] = False
        _state['layer'] = _state.get('layer', 0) + 1
        if _state.get('abort_at') == ('pre', _state['layer']):
            from emd.support import EMDSiftCovergeError
            raise EMDSiftCovergeError('injected: extraction %d did not converge' % _state['layer'])
        r = _orig['gni'](*a, **k)
        if _state.get('abort_at') == ('post', _state['layer']):
            raise KeyboardInterrupt('injected after extraction %d' % _state['layer'])
        if _state['last_none']:
            _state['paths'].append('final' if _state['env_calls'] <= 2 else 'vanish')
        else:
            _state['paths'].append('stop')
        return r
    S.interp_envelope = env
    S.get_next_imf = gni


def grid(full=True):
    for (rule, par), step, interp, pad in itertools.product(STOPS, STEPS, INTERPS, PADS):
        yield rule, par, step, interp, pad


SUBGRID = [(STOPS[i % 8], STEPS[i % 3], INTERPS[i % 3], PADS[i % 4]) for i in range(12)]


def opts_of(rule, par, step, interp, pad):
    imf_opts = {'env_step_size': step, 'stop_method': rule}
    if rule == 'sd':
        imf_opts['sd_thresh'] = par
    elif rule == 'rilling':
        imf_opts['rilling_thresh'] = par
    else:
        imf_opts['max_iters'] = par
    return dict(imf_opts=imf_opts, envelope_opts={'interp_method': interp}, extrema_opts={'pad_width': pad})


def bounds(tier):
    # stride k: a signal runs every k-th configuration of G, starting at an offset that rotates with the signal,
    # so the union over signals still covers all of G; stride 1 = the full grid for every signal
    if tier == 'quick':
        return {'max_len': 6, 'fb_sizes': (32,), 'extra3': (), 'stride_fa': 3, 'stride_fb': 6, 'stride_noise': 16}
    return {'max_len': 7, 'fb_sizes': (32, 64, 200), 'extra3': (8, 9), 'stride_fa': 1, 'stride_fb': 1, 'stride_noise': 8}


def _cfgs(final, stride, rot):
    if final:
        return range(12)
    return range(rot % stride, 288, stride)


# option sets of the abort-point family (each case runs 2 x layers + 1 sifts: cheap configurations only)
ABORT_CFGS = [(('sd', 0.1), 1.0, 'splrep', 2), (('fixed', 2), 1.0, 'pchip', 1), (('sd', 0.3), 0.5, 'splrep', 3), (('fixed', 5), 1.0, 'mono_pchip', 2)]


def cases(tier, seed):
    b = bounds(tier)
    k = 0
    for idx in signals.fa_indices(4, 3, b['max_len']):
        mx, mn = signals.strict_extrema(idx)
        final = len(mx) < 2 or len(mn) < 2
        k += 0 if final else 1
        for ci in _cfgs(final, b['stride_fa'], k):
            yield ('fa4', idx, seed, ci)
    for L in b['extra3']:
        for idx in signals.fa_indices(3, L, L):
            mx, mn = signals.strict_extrema(idx)
            final = len(mx) < 2 or len(mn) < 2
            k += 0 if final else 1
            for ci in _cfgs(final, b['stride_fa'], k):
                yield ('fa3', idx, seed, ci)
    # larger scope: long records with extrema bunched at one end / with hundreds of extrema; integer-typed copies
    for what in (('cluster', (2600, 'left')), ('cluster', (2600, 'right')), ('cluster', (1200, 'left')), ('dense', (700,))):
        for ci in range(0, 288, 24):
            yield ('long', what, seed, ci)
    n_int = 0
    for idx in signals.fa_indices(4, 6, 6):
        mx, mn = signals.strict_extrema(idx)
        if len(mx) >= 2 and len(mn) >= 2:
            n_int += 1
            if n_int % 5 == 0:
                for ci in ((n_int * 7) % 288, (n_int * 13 + 100) % 288):
                    yield ('fa4-int', idx, seed, ci)
    for name in signals.fb_names(b['fb_sizes']):
        k += 1
        stride = b['stride_noise'] if name[0] in ('noise', 'walk') else b['stride_fb']
        for ci in _cfgs(False, stride, k):
            yield ('fb', name, seed, ci)
    # every abort point: a sift left through an exception at (or right after) its k-th extraction, for every k, must
    # leave nothing behind - the next sift of the same record is judged and compared with the undisturbed run
    for i, name in enumerate(signals.fb_names((32,))):
        yield ('fb-abort', name, seed, i % len(ABORT_CFGS))
    # a bounded iteration budget: the sift either raises the documented convergence error or returns a complete
    # decomposition - never the components found so far
    for i, name in enumerate(signals.fb_names((32,))):
        for mi in (3, 10, 20):
            yield ('fb-budget', name + (mi,), seed, i % 2)
    # the same numbers in non-native byte order (what a big-endian file gives) and as 32-bit integers
    for i, name in enumerate(signals.fb_names((32,))):
        if i % 4 == 0:
            yield ('fb-swapped', name, seed, (i * 41) % 288)
    # amplitudes many orders of magnitude from 1, the sift threshold rescaled with the signal (or switched off)
    for i, name in enumerate(signals.fb_names((32,))):
        if i % 3 == 0:
            for scale in (1e-13, 1e9):
                for ci in ((i * 29) % 288, (i * 53 + 7) % 288):
                    yield ('fb-scaled', name + (scale,), seed, ci)


def decode_case(c):
    def tup(v):
        return tuple(tup(z) for z in v) if isinstance(v, list) else v
    return (c[0], tup(c[1]), c[2], c[3])


def signal_of(case):
    if case[0] == 'fa4':
        return signals.fa_signal(case[1], 4, case[2])
    if case[0] == 'fa4-int':
        return np.array(case[1], dtype=float)
    if case[0] == 'long':
        from . import c05
        return c05.signal_of((case[1][0], tuple(case[1][1]), case[2]))
    if case[0] == 'fa3':
        return signals.fa_signal(case[1], 3, case[2])
    if case[0] == 'fb-scaled':
        return signals.fb_signal(tuple(case[1][:-1]), case[2]) * case[1][-1]
    if case[0] == 'fb-budget':
        return signals.fb_signal(tuple(case[1][:-1]), case[2])
    if case[0] == 'fb-swapped':
        x_ = signals.fb_signal(case[1], case[2])
        return np.round(x_ * 300) if case[2] % 2 else x_         # ADC-style counts for odd seeds
    return signals.fb_signal(case[1], case[2])


def judge(x, imf, sift_thresh=1e-8, unit=1.0):
    """-> (kind, message) or None.  The statement's oracle for one decomposition."""
    imf = np.asarray(imf)
    N = len(x)
    if imf.ndim != 2 or imf.shape[0] != N or imf.shape[1] < 1:
        return ('shape', 'result shape %r for %d samples' % (imf.shape, N))
    if not np.all(np.isfinite(imf)):
        return ('non-finite', 'result contains non-finite values')
    if np.abs(imf[:, -1]).sum() < sift_thresh:
        return None     # explicitly cut short by the sift threshold
    R = x - imf.sum(axis=1)
    tol = 1e-9 * (unit + np.max(np.abs(x))) * imf.shape[1]
    if not np.max(np.abs(R)) <= tol:
        return ('incomplete', 'components sum to the input minus %s (max |R| = %.3g, %d columns)' % (
            np.round(R[:6], 6).tolist(), np.max(np.abs(R)), imf.shape[1]))
    mx, mn = signals.strict_extrema(imf[:, -1])
    if len(mx) >= 2 and len(mn) >= 2:
        return ('oscillatory-residual', 'last column still has %d maxima and %d minima' % (len(mx), len(mn)))
    return None


def check_case(case):
    from emd.sift import sift
    from emd.support import EMDSiftCovergeError
    worker_init()
    x = signal_of(case)
    N = len(x)
    mx, mn = signals.strict_extrema(x)
    input_final = len(mx) < 2 or len(mn) < 2
    GRID = [((r, p), s_, i, pd) for r, p, s_, i, pd in grid()]
    configs = [SUBGRID[case[3] % 12] if input_final else GRID[case[3]]]
    if case[0] == 'fb-abort':
        configs = [ABORT_CFGS[case[3] % len(ABORT_CFGS)]]
    if case[0] == 'fb-budget':
        configs = [((('sd', 0.02), 1.0, 'splrep', 2), (('rilling', (0.05, 0.5, 0.05)), 1.0, 'splrep', 2))[case[3] % 2]]
    viols = []
    trans = 0
    classes = set()
    maxcols = 0
    d = 'x=%s%s' % (x.tolist() if N <= 12 else '%s%r' % (case[0], case[1]), ' (integer-typed)' if case[0] == 'fa4-int' else '')
    unit, thresh = 1.0, 1e-8
    if case[0] == 'fb-scaled':
        unit = case[1][-1]
        thresh = 1e-8 * unit if case[3] % 2 == 0 else 0.0
    for (rule, par), step, interp, pad in configs:
        o = opts_of(rule, par, step, interp, pad)
        if case[0] == 'fb-scaled':
            o['sift_thresh'] = thresh
        if case[0] == 'fb-budget':
            o['imf_opts']['max_iters'] = case[1][-1]
        tag = '%s stop=%s%r step=%.3g interp=%s pad=%d%s' % (d, rule, par, step, interp, pad, '' if case[0] != 'fb-scaled' else ' sift_thresh=%g' % thresh)
        _state['paths'] = []
        _state['layer'] = 0
        _state['abort_at'] = None
        try:
            xin = x.copy() if case[0] != 'fa4-int' else x.astype(np.int64 if case[2] % 2 == 0 else np.int16)
            if case[0] == 'fb-swapped':
                xin = x.astype('>i4' if case[2] % 2 else '>f8')
            imf = sift(xin, **o)
            for m_ in _holder.swap(imf, 'sift ' + tag):
                viols.append(('earlier-result-changed', m_))
        except EMDSiftCovergeError:
            return Outcome(cls='converge-error', transitions=max(len(_state['paths']), 1), nontrivial=True)
        except Exception as e:
            viols.append(('raise:%s' % type(e).__name__, '%s raised %r' % (tag, e)))
            continue
        trans += len(_state['paths']) or 1
        paths = _state['paths']
        maxcols = max(maxcols, np.asarray(imf).shape[1] if np.asarray(imf).ndim == 2 else 0)
        if 'vanish' in paths:
            classes.add('vanish')
        bad = judge(x, imf, thresh, unit)
        if bad:
            suffix = ':after-vanish' if 'vanish' in paths else ''
            viols.append((bad[0] + suffix, '%s: %s; extraction paths %s' % (tag, bad[1], paths)))
        elif np.abs(np.asarray(imf)[:, -1]).sum() < thresh:
            classes.add('cut-by-threshold')
        if case[0] == 'fb' and not bad and case[3] % 4 == 0:
            # the same decomposition requested in the other documented ways: threshold passed positionally, options
            # unpacked from a configuration object, the configuration's callable, the signal as a column
            from emd.sift import get_config
            try:
                cfg = get_config('sift')
                for g_ in ('imf_opts', 'envelope_opts', 'extrema_opts'):
                    for k_, v_ in o[g_].items():
                        cfg['%s/%s' % (g_, k_)] = v_
                ways = (('sift(x, 1e-8, None, ...)', lambda: sift(x.copy(), 1e-8, None, imf_opts=o['imf_opts'], envelope_opts=o['envelope_opts'], extrema_opts=o['extrema_opts'])),
                        ('sift(x, **config)', lambda: sift(x.copy(), **cfg)), ('config.get_func()(x)', lambda: cfg.get_func()(x.copy())),
                        ('sift(x[:, None])', lambda: sift(x[:, None].copy(), **o)))
                for wname, f_ in ways:
                    alt = np.asarray(f_())
                    trans += 1
                    if alt.shape != np.asarray(imf).shape or not np.array_equal(alt, np.asarray(imf)):
                        b2 = judge(x, alt, thresh, unit)
                        viols.append(('route:%s' % (b2[0] if b2 else 'differs'), '%s: %s gives %r columns, the keyword call %r%s' % (
                            tag, wname, alt.shape, np.asarray(imf).shape, '' if not b2 else '; ' + b2[1])))
            except Exception as e:
                viols.append(('route:raise:%s' % type(e).__name__, '%s: an alternative call form raised %r' % (tag, e)))
        if case[0] == 'fb-abort' and not bad:
            nlayers = len(paths)
            for when in ('pre', 'post'):
                for k_ in range(1, nlayers + 1):
                    _state['layer'] = 0
                    _state['abort_at'] = (when, k_)
                    try:
                        sift(x.copy(), **o)
                        aborted = False
                    except (EMDSiftCovergeError, KeyboardInterrupt):
                        aborted = True
                    except Exception as e:
                        viols.append(('abort:other-exception', '%s: abort %s extraction %d surfaced as %r' % (tag, when, k_, e)))
                        aborted = True
                    finally:
                        _state['abort_at'] = None
                        _state['layer'] = 0
                    if not aborted:
                        viols.append(('abort:swallowed', '%s: an error raised %s extraction %d did not leave the sift' % (tag, when, k_)))
                    _state['paths'] = []
                    try:
                        again = np.asarray(sift(x.copy(), **o))
                    except Exception as e:
                        viols.append(('abort:next-call-raises', '%s: the sift after an aborted one (%s extraction %d) raised %r' % (tag, when, k_, e)))
                        continue
                    trans += 2
                    bad2 = judge(x, again, thresh, unit)
                    if bad2:
                        viols.append((bad2[0] + ':after-aborted-sift', '%s: after a sift aborted %s extraction %d of %d: %s' % (tag, when, k_, nlayers, bad2[1])))
                    elif again.shape != np.asarray(imf).shape or not np.array_equal(again, np.asarray(imf)):
                        viols.append(('abort:next-call-differs', '%s: the sift after an aborted one (%s extraction %d of %d) differs from the undisturbed run' % (tag, when, k_, nlayers)))
    if input_final:
        cls = 'final-only'
    elif 'vanish' in classes:
        cls = 'has-vanish'
    else:
        cls = 'stop-only'
    out = Outcome(cls=cls, transitions=trans, viols=viols, nontrivial=maxcols >= 2)
    return out


def snippet(case, kind):
    x = signal_of(case)
    if len(x) > 12:
        return None
    return ('import numpy as np, emd\nx = np.array(%r)\nimf = emd.sift.sift(x)\n'
            'print(imf.sum(axis=1) - x)   # must be ~0 unless abs(imf[:, -1]).sum() < 1e-8\n' % (x.tolist(),))


def nonvacuity(rep, ctx):
    if not {'final-only', 'stop-only', 'has-vanish'} <= set(rep.classes):
        return ['vacuous: outcome classes %r' % dict(rep.classes)]
    return []
