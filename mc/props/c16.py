"""C16 - sample / cycle / subset / chain index maps are mutually consistent.

Space (explorer I):
 sel    : every boolean selection vector of length 1..12 (every subset/chain structure up to 12 cycles); cycle, subset
          and chain level maps and projections
 struct : every selection vector of length K x every cycle-length composition (lengths from a menu) x every placement
          of unlabelled gaps before / between / after cycles; all 12 map_* and 6 project_* functions
Oracle: set-theoretic definitions.
"""
import itertools
import numpy as np

from ..engine.explore import Outcome, Refill, Holder

_refill = Refill()
_holder = Holder()
from ..engine import enum

PID = 'C16'
TIMEOUT = 20.0
RULE = ('sel: all boolean vectors of length 1..12; struct: all (selection, cycle lengths, gap placement) structures '
        'up to K cycles; non-trivial = at least one selected and one unselected cycle (sel) / additionally one gap (struct)')
ASSUMPTIONS = ["'none' is accepted as either None or a negative index", 'per-level values are distinct powers of two']


def bounds(tier):
    if tier == 'quick':
        return {'sel_len': 12, 'struct': [(1, (1, 2, 3)), (2, (1, 2, 3)), (3, (1, 2, 3)), (4, (1, 2))]}
    return {'sel_len': 12, 'struct': [(1, (1, 2, 3)), (2, (1, 2, 3)), (3, (1, 2, 3)), (4, (1, 2, 3)), (5, (1, 2, 3)), (6, (1, 2))]}


def cases(tier, seed):
    b = bounds(tier)
    yield ('giant', 210000 if tier == 'quick' else 420000)
    # medium scope: hundreds of cycles (every per-level count on both sides of 128 / 256 / 1024), periodic selections
    for K in ((130, 194, 259, 400, 1030) if tier == 'quick' else (130, 131, 194, 258, 259, 387, 400, 515, 1030, 2051, 4100)):
        for period, off in ((2, 0), (2, 1), (3, 0), (3, 2), (5, 1), (K, 1), (K + 1, 0)):
            yield ('medium', K, period, off)
    for v in enum.bool_vectors(1, b['sel_len']):
        yield ('sel', v)
    for K, menu in b['struct']:
        for sel in itertools.product((0, 1), repeat=K):
            for lens in itertools.product(menu, repeat=K):
                for gaps in itertools.product((0, 1), repeat=K + 1):
                    yield ('struct', sel, lens, gaps)


def decode_case(c):
    return tuple(tuple(x) if isinstance(x, list) else x for x in c)


def signature(kind, case):
    return kind


def nm(x):
    """Normalise a forward-map answer: None / negative -> None, size-1 -> int."""
    if x is None:
        return None
    a = np.asarray(x)
    if a.size != 1:
        return ('multi', tuple(a.reshape(-1).tolist()))
    v = int(a.reshape(-1)[0])
    return None if v < 0 else v


def arr(x):
    return tuple(int(v) for v in np.atleast_1d(np.asarray(x)).reshape(-1).tolist())


def ref_vectors(sel):
    K = len(sel)
    subset = [-1] * K
    k = 0
    for i, s in enumerate(sel):
        if s:
            subset[i] = k
            k += 1
    chain = []
    cur = -1
    prev = None
    for i, s in enumerate(sel):
        if s:
            if prev is None or prev != i - 1:
                cur += 1
            chain.append(cur)
            prev = i
    return subset, chain


def check_giant(case):
    """Larger scope: index values beyond 100000 at every level (every second cycle selected, so every chain is one cycle)."""
    import emd._cycles_support as cs
    from emd.cycles import get_subset_vector, get_chain_vector
    K = case[1]
    sel = (np.arange(K) % 2 == 0)
    cv = np.repeat(np.arange(K), 2)
    cv[1::2] = -1                      # one sample per cycle followed by one unlabelled sample
    viols = []
    d = 'giant structure: %d cycles, every second one selected' % K
    try:
        sv = np.asarray(get_subset_vector(sel))
        chv = np.asarray(get_chain_vector(sv))
    except Exception as e:
        return Outcome(cls='giant', viols=[('giant:raise:%s' % type(e).__name__, '%s raised %r' % (d, e))])
    rsub = np.where(sel, np.cumsum(sel) - 1, -1)
    nsub = int(sel.sum())
    if not np.array_equal(sv.reshape(-1), rsub):
        viols.append(('giant:get_subset_vector', '%s: subset vector wrong' % d))
    if not np.array_equal(chv.reshape(-1), np.arange(nsub)):
        viols.append(('giant:get_chain_vector', '%s: chain vector wrong' % d))
    if viols:
        return Outcome(cls='giant', viols=viols)
    trans = 2
    probe_sub = sorted(set([0, 1, 99999, 100000, 100001, nsub - 2, nsub - 1]))
    for s_ in probe_sub:
        c = 2 * s_
        try:
            checks = giant_checks(cs, cv, sv, chv, s_, c, K)
        except Exception as e:
            viols.append(('giant:raise:%s' % type(e).__name__, '%s: a map raised %r at subset index %d' % (d, e, s_)))
            continue
        trans += len(checks)
        for name, got, want in checks:
            if got != want:
                viols.append(('giant:%s' % name, '%s: %s at subset index %d gave %r expected %r' % (d, name, s_, got, want)))
    return Outcome(cls='giant', transitions=trans, viols=viols, nontrivial=True)


def check_medium(case):
    """Hundreds of cycles: the six projections against a vectorised reference (unselected / unlabelled items stay missing)."""
    import emd._cycles_support as cs
    from emd.cycles import get_subset_vector, get_chain_vector
    _, K, period, off = case
    sel = (np.arange(K) % period != off)          # cycle `off` (mod period) is NOT selected
    cv = np.repeat(np.arange(K), 3)
    cv[2::3] = -1                                  # two samples per cycle, then one unlabelled sample
    d = 'medium structure: %d cycles, cycles == %d (mod %d) unselected, 2 samples per cycle + 1 unlabelled' % (K, off, period)
    viols = []
    try:
        sv = np.asarray(get_subset_vector(sel))
        chv = np.asarray(get_chain_vector(sv))
    except Exception as e:
        return Outcome(cls='medium', viols=[('medium:raise:%s' % type(e).__name__, '%s raised %r' % (d, e))])
    rsub = np.where(sel, np.cumsum(sel) - 1, -1)
    nsub = int(sel.sum())
    cyc = np.where(sel)[0]
    rchain = np.cumsum(np.r_[0, np.diff(cyc) != 1]) if nsub else np.zeros(0, dtype=int)
    if not np.array_equal(sv.reshape(-1), rsub):
        return Outcome(cls='medium', viols=[('medium:get_subset_vector', '%s: subset vector wrong' % d)])
    if not np.array_equal(chv.reshape(-1), rchain):
        return Outcome(cls='medium', viols=[('medium:get_chain_vector', '%s: chain vector wrong' % d)])
    nchain = int(rchain.max()) + 1 if nsub else 0
    cycvals = 1.0 + np.arange(K) * 0.5
    subvals = 3.0 + np.arange(nsub) * 0.25
    chvals = 7.0 + np.arange(nchain) * 0.125
    sub_on_cyc = np.where(rsub >= 0, subvals[np.clip(rsub, 0, None)] if nsub else np.nan, np.nan)
    ch_on_sub = chvals[rchain] if nsub else np.zeros(0)
    ch_on_cyc = np.where(rsub >= 0, ch_on_sub[np.clip(rsub, 0, None)] if nsub else np.nan, np.nan)

    def to_samples(v):
        return np.where(cv >= 0, v[np.clip(cv, 0, None)], np.nan)
    trans = 2
    for name, f, want in (('project_cycles_to_samples', lambda: cs.project_cycles_to_samples(cycvals.copy(), cv.copy()), to_samples(cycvals)),
                          ('project_subset_to_cycles', lambda: cs.project_subset_to_cycles(subvals.copy(), sv.copy()), sub_on_cyc),
                          ('project_subset_to_samples', lambda: cs.project_subset_to_samples(subvals.copy(), sv.copy(), cv.copy()), to_samples(sub_on_cyc)),
                          ('project_chain_to_subset', lambda: cs.project_chain_to_subset(chvals.copy(), chv.copy()), ch_on_sub),
                          ('project_chain_to_cycles', lambda: cs.project_chain_to_cycles(chvals.copy(), chv.copy(), sv.copy()), ch_on_cyc),
                          ('project_chain_to_samples', lambda: cs.project_chain_to_samples(chvals.copy(), chv.copy(), sv.copy(), cv.copy()), to_samples(ch_on_cyc))):
        try:
            got = np.asarray(f(), dtype=float).reshape(-1)
        except Exception as e:
            viols.append(('medium:%s:raise:%s' % (name, type(e).__name__), '%s: %s raised %r' % (d, name, e)))
            continue
        trans += 1
        if got.shape != want.shape or not np.array_equal(got, want, equal_nan=True):
            bad = np.where(~((got == want) | ((got != got) & (want != want))))[0] if got.shape == want.shape else []
            viols.append(('medium:%s' % name, '%s: %s wrong (shape %r vs %r; first differing items %s: got %s expected %s)'
                          % (d, name, got.shape, want.shape, list(bad[:3]), [got[i] for i in bad[:3]], [want[i] for i in bad[:3]])))
    nontriv = 0 < nsub < K
    return Outcome(cls='medium', transitions=trans, viols=viols, nontrivial=bool(nontriv))


def giant_checks(cs, cv, sv, chv, s_, c, K):
    if True:
        checks = [('map_cycle_to_samples', arr(cs.map_cycle_to_samples(cv, c)), (2 * c,)),
                  ('map_subset_to_cycle', arr(cs.map_subset_to_cycle(sv, s_)), (c,)),
                  ('map_chain_to_subset', arr(cs.map_chain_to_subset(chv, s_)), (s_,)),
                  ('map_chain_to_cycle', arr(cs.map_chain_to_cycle(chv, sv, s_)), (c,)),
                  ('map_subset_to_sample', arr(cs.map_subset_to_sample(sv, cv, s_)), (2 * c,)),
                  ('map_chain_to_samples', arr(cs.map_chain_to_samples(chv, sv, cv, s_)), (2 * c,)),
                  ('map_sample_to_chain', nm(cs.map_sample_to_chain(chv, sv, cv, 2 * c)), s_),
                  ('map_sample_to_subset', nm(cs.map_sample_to_subset(sv, cv, 2 * c + 1)), None),
                  ('map_cycle_to_chain', nm(cs.map_cycle_to_chain(chv, sv, c + 1)) if c + 1 < K else None, None)]
    return checks


def check_case(case):
    import emd._cycles_support as cs
    from emd.cycles import get_subset_vector, get_chain_vector
    kind = case[0]
    if kind == 'giant':
        return check_giant(case)
    if kind == 'medium':
        return check_medium(case)
    sel = case[1]
    K = len(sel)
    viols = []
    trans = 0
    d = 'sel=%s' % (list(sel),)
    if kind == 'struct':
        lens, gaps = case[2], case[3]
        cv = []
        for c in range(K):
            if gaps[c]:
                cv.append(-1)
            cv += [c] * lens[c]
        if gaps[K]:
            cv.append(-1)
        # handed to the library in a caller-owned buffer that is refilled in place from case to case
        # (a call on the buffer's previous contents comes first: two consecutive uses of one object with different contents)
        cv = _refill.primed(np.array(cv, dtype=int), 'cycle_vect', lambda b_: cs.map_cycle_to_samples(b_, 0))
        cv0 = cv.copy()
        d += ' cycle_vect=%s' % cv.tolist()
    else:
        cv = None
    rsub, rchain = ref_vectors(sel)
    nsub = len(rchain)
    nchain = (max(rchain) + 1) if rchain else 0

    def call(name, f, *a):
        nonlocal trans
        try:
            r = f(*a)
            for m_ in _holder.swap(r, '%s %s' % (name, d)):
                viols.append(('earlier-result-changed', m_))
            trans += 1
            return True, r
        except Exception as e:
            viols.append(('%s:raise:%s' % (name, type(e).__name__), '%s: %s%r raised %r' % (d, name, a[-1:], e)))
            return False, None

    ok, sv = call('get_subset_vector', get_subset_vector, np.array(sel, dtype=bool))
    if not ok:
        return Outcome(cls=kind, viols=viols)
    sv = np.asarray(sv)
    if arr(sv) != tuple(rsub):
        viols.append(('get_subset_vector', '%s: got %s expected %s' % (d, sv.tolist(), rsub)))
        return Outcome(cls=kind, viols=viols)
    if kind == 'sel' and K <= 9:
        # the same flags as a plain list of bools / a tuple of 0-1 / an integer array
        for form, val in (('list', [bool(v) for v in sel]), ('tuple', tuple(int(v) for v in sel)), ('uint8', np.array(sel, dtype=np.uint8))):
            ok2, sv2 = call('get_subset_vector', get_subset_vector, val)
            if ok2 and arr(sv2) != tuple(rsub):
                viols.append(('get_subset_vector:%s-input' % form, '%s passed as %s: got %s expected %s' % (d, form, np.asarray(sv2).tolist(), rsub)))
    ok, chv = call('get_chain_vector', get_chain_vector, sv)
    if not ok:
        return Outcome(cls=kind, viols=viols)
    chv = np.asarray(chv)
    if arr(chv) != tuple(rchain) and not (len(rchain) == 0 and chv.size == 0):
        viols.append(('get_chain_vector', '%s: got %s expected %s' % (d, chv.tolist(), rchain)))
        return Outcome(cls=kind, viols=viols)

    cyc_of_sub = [i for i, s in enumerate(sel) if s]
    subs_of_chain = [[s for s in range(nsub) if rchain[s] == ch] for ch in range(nchain)]

    def expect(name, got, want):
        if got != want:
            viols.append((name, '%s: %s gave %r expected %r' % (d, name, got, want)))

    # cycle <-> subset <-> chain
    for c in range(K):
        ok, r = call('map_cycle_to_subset', cs.map_cycle_to_subset, sv, c)
        if ok:
            expect('map_cycle_to_subset', nm(r), rsub[c] if rsub[c] >= 0 else None)
        ok, r = call('map_cycle_to_chain', cs.map_cycle_to_chain, chv, sv, c)
        if ok:
            expect('map_cycle_to_chain', nm(r), rchain[rsub[c]] if rsub[c] >= 0 else None)
    for s in range(nsub):
        ok, r = call('map_subset_to_cycle', cs.map_subset_to_cycle, sv, s)
        if ok:
            expect('map_subset_to_cycle', arr(r), (cyc_of_sub[s],))
        ok, r = call('map_subset_to_chain', cs.map_subset_to_chain, chv, s)
        if ok:
            expect('map_subset_to_chain', nm(r), rchain[s])
    for ch in range(nchain):
        ok, r = call('map_chain_to_subset', cs.map_chain_to_subset, chv, ch)
        if ok:
            expect('map_chain_to_subset', arr(r), tuple(subs_of_chain[ch]))
        ok, r = call('map_chain_to_cycle', cs.map_chain_to_cycle, chv, sv, ch)
        if ok:
            expect('map_chain_to_cycle', arr(r), tuple(cyc_of_sub[s] for s in subs_of_chain[ch]))
    # projections between cycle-level vectors
    def distinct_values(n_):
        # distinct per-item values including the extremes a reduction can legitimately produce (+inf, -inf)
        v = 2.0 ** np.arange(n_)
        if n_ >= 1:
            v[-1] = np.inf
        if n_ >= 3:
            v[0] = -np.inf
        return v
    chvals = distinct_values(nchain)
    subvals = distinct_values(nsub)

    def nanlist(x):
        return tuple('nan' if v != v else float(v) for v in np.asarray(x, dtype=float).reshape(-1).tolist())

    ok, r = call('project_chain_to_subset', cs.project_chain_to_subset, chvals, chv)
    if ok:
        expect('project_chain_to_subset', nanlist(r), tuple(float(chvals[rchain[s]]) for s in range(nsub)))
    ok, r = call('project_subset_to_cycles', cs.project_subset_to_cycles, subvals, sv)
    if ok:
        expect('project_subset_to_cycles', nanlist(r), tuple(float(subvals[rsub[c]]) if rsub[c] >= 0 else 'nan' for c in range(K)))
    ok, r = call('project_chain_to_cycles', cs.project_chain_to_cycles, chvals, chv, sv)
    if ok:
        expect('project_chain_to_cycles', nanlist(r), tuple(float(chvals[rchain[rsub[c]]]) if rsub[c] >= 0 else 'nan' for c in range(K)))

    if cv is not None:
        n = len(cv)
        samples_of_cycle = [tuple(np.where(cv == c)[0].tolist()) for c in range(K)]
        for i in range(n):
            c = int(cv[i])
            ok, r = call('map_sample_to_cycle', cs.map_sample_to_cycle, cv, i)
            if ok:
                expect('map_sample_to_cycle', nm(r), c if c >= 0 else None)
            s_want = rsub[c] if c >= 0 and rsub[c] >= 0 else None
            ok, r = call('map_sample_to_subset', cs.map_sample_to_subset, sv, cv, i)
            if ok:
                expect('map_sample_to_subset', nm(r), s_want)
                if nm(r) is not None and not isinstance(nm(r), tuple) and nm(r) < nsub:
                    ok2, back = call('map_subset_to_sample', cs.map_subset_to_sample, sv, cv, nm(r))
                    if ok2 and i not in arr(back):
                        viols.append(('roundtrip:sample-subset', '%s: sample %d -> subset %r -> samples %r' % (d, i, nm(r), arr(back))))
            ch_want = rchain[s_want] if s_want is not None else None
            ok, r = call('map_sample_to_chain', cs.map_sample_to_chain, chv, sv, cv, i)
            if ok:
                expect('map_sample_to_chain', nm(r), ch_want)
                if nm(r) is not None and not isinstance(nm(r), tuple) and nm(r) < nchain:
                    ok2, back = call('map_chain_to_samples', cs.map_chain_to_samples, chv, sv, cv, nm(r))
                    if ok2 and i not in arr(back):
                        viols.append(('roundtrip:sample-chain', '%s: sample %d -> chain %r -> samples %r' % (d, i, nm(r), arr(back))))
        for c in range(K):
            ok, r = call('map_cycle_to_samples', cs.map_cycle_to_samples, cv, c)
            if ok:
                expect('map_cycle_to_samples', arr(r), samples_of_cycle[c])
        for s in range(nsub):
            ok, r = call('map_subset_to_sample', cs.map_subset_to_sample, sv, cv, s)
            if ok:
                expect('map_subset_to_sample', arr(r), samples_of_cycle[cyc_of_sub[s]])
        for ch in range(nchain):
            ok, r = call('map_chain_to_samples', cs.map_chain_to_samples, chv, sv, cv, ch)
            if ok:
                want = tuple(i for s in subs_of_chain[ch] for i in samples_of_cycle[cyc_of_sub[s]])
                expect('map_chain_to_samples', arr(r), want)
        cycvals = distinct_values(K)

        def per_sample(f):
            return tuple(f(int(cv[i])) if cv[i] >= 0 else 'nan' for i in range(n))
        ok, r = call('project_cycles_to_samples', cs.project_cycles_to_samples, cycvals, cv)
        if ok:
            expect('project_cycles_to_samples', nanlist(r), per_sample(lambda c: float(cycvals[c])))
        ok, r = call('project_subset_to_samples', cs.project_subset_to_samples, subvals, sv, cv)
        if ok:
            expect('project_subset_to_samples', nanlist(r), per_sample(lambda c: float(subvals[rsub[c]]) if rsub[c] >= 0 else 'nan'))
        ok, r = call('project_chain_to_samples', cs.project_chain_to_samples, chvals, chv, sv, cv)
        if ok:
            expect('project_chain_to_samples', nanlist(r), per_sample(lambda c: float(chvals[rchain[rsub[c]]]) if rsub[c] >= 0 else 'nan'))
        # the iterator class walks the same maps: cycles, selected cycles and chains, each with exactly its samples
        from emd.cycles import IterateCycles
        for through, want in (('cycles', [samples_of_cycle[c] for c in range(K)]),
                              ('subset', [samples_of_cycle[cyc_of_sub[s_]] for s_ in range(nsub)]),
                              ('chains', [tuple(i for s_ in subs_of_chain[ch] for i in samples_of_cycle[cyc_of_sub[s_]]) for ch in range(nchain)])):
            if K == 0 or (through != 'cycles' and nsub == 0):
                continue
            ok, r = call('IterateCycles:%s' % through, lambda: [tuple(int(v) for v in np.asarray(inds).reshape(-1))
                                                                   for _, inds in IterateCycles(iter_through=through, cycle_vect=cv, subset_vect=sv, chain_vect=chv)])
            if ok:
                expect('IterateCycles:%s' % through, r, want)
        # the cycle vector as the [n x 1] column that get_cycle_vector returns and the container holds: same answers
        cvc = cv[:, None].copy()
        ok, r = call('project_cycles_to_samples:column', cs.project_cycles_to_samples, cycvals, cvc)
        if ok:
            expect('project_cycles_to_samples:column', nanlist(r), per_sample(lambda c: float(cycvals[c])))
        ok, r = call('project_subset_to_samples:column', cs.project_subset_to_samples, subvals, sv, cvc)
        if ok:
            expect('project_subset_to_samples:column', nanlist(r), per_sample(lambda c: float(subvals[rsub[c]]) if rsub[c] >= 0 else 'nan'))
        ok, r = call('project_chain_to_samples:column', cs.project_chain_to_samples, chvals, chv, sv, cvc)
        if ok:
            expect('project_chain_to_samples:column', nanlist(r), per_sample(lambda c: float(chvals[rchain[rsub[c]]]) if rsub[c] >= 0 else 'nan'))
        for c in range(K):
            ok, r = call('map_cycle_to_samples:column', cs.map_cycle_to_samples, cvc, c)
            if ok:
                expect('map_cycle_to_samples:column', arr(r), samples_of_cycle[c])
    if cv is not None and not np.array_equal(cv, cv0):
        viols.append(('input-modified', '%s: the cycle vector was changed by the maps' % d))
    nontriv = any(sel) and not all(sel) and (cv is None or (cv < 0).any())
    return Outcome(cls=kind, transitions=trans, viols=viols, nontrivial=bool(nontriv))


def snippet(case, kind):
    return None


def nonvacuity(rep, ctx):
    if not {'sel', 'struct', 'giant', 'medium'} <= set(rep.classes):
        return ['vacuous: outcome classes %r' % dict(rep.classes)]
    return []
