"""C04 - single-IMF extraction obeys its stopping rule and always terminates.

Space (explorer I): signal family F (F_A: every 4-level sequence of length 3..L; F_B: structured grid) x
{sd x 4 thresholds, rilling x 3 triples, fixed x 4 counts} x step size x iteration limit x envelope configuration,
plus energy thresholds.  Reference model: the iterate sequence h_{i+1} = h_i - step*mean_env(h_i) computed in the
harness from the repository's own envelope stage (envelope defects are C05's), with the stopping rules written from
the statement.
"""
import numpy as np

from ..engine.explore import Outcome
from . import signals

PID = 'C04'
TIMEOUT = 1800.0
RULE = ('per signal: 4 envelope configs x 4 step sizes x (7 sd/rilling rules x 5 iteration limits + 4 fixed counts) '
        'get_next_imf calls + energy-threshold calls, each compared with the reference iterate sequence; '
        'non-trivial = signal whose extraction takes >= 2 iterations under some configuration')
ASSUMPTIONS = ['the reference uses emd.sift.interp_envelope (captured before interposition) as its envelope stage',
               'an extraction whose reference stops exactly at iteration max_iters+1 may either return or raise',
               'decisions within 1e-9 (relative) of a threshold are excluded (guard band) and counted',
               'energy_thresh cases with exactly zero IMF or residual energy are not judged (np.log10(where=) leaves them undefined)']

SD = (1e-6, 0.01, 0.1, 0.5)
RILLING = ((0.05, 0.5, 0.05), (0.1, 0.5, 0.1), (0.3, 1.0, 0.3), (0.2, 3.0, 0.2))     # sd1 / sd2 are ratios, not proportions: values above 1 are legal
FIXED = (1, 2, 3, 7)
STEPS = (1.0, 0.5, 1.0 / 3, 0.05)
MAXITERS = (1, 2, 4, 30)
LONG = 1000   # only with the first envelope config and steps {1, 0.05}
ENVS = (('splrep', 2), ('pchip', 1), ('mono_pchip', 2), ('splrep', 1))
ENERGY = (50.0, 0.0)

_orig = {}


def worker_init():
    import emd.sift as S
    _orig['env'] = S.interp_envelope
    S.interp_envelope = counting_env


_calls = [0]
_held = []
_forms = [0]


def orig_env():
    if 'env' not in _orig:
        import emd.sift as S
        return S.interp_envelope
    return _orig['env']


def counting_env(*a, **k):
    _calls[0] += 1
    return _orig['env'](*a, **k)


def bounds(tier):
    if tier == 'quick':
        return {'max_len': 6, 'fb_sizes': (32,), 'long': False}
    return {'max_len': 7, 'fb_sizes': (32, 64, 200), 'long': True}


def cases(tier, seed):
    b = bounds(tier)
    nscaled = 0
    for idx in signals.fa_indices(4, 3, b['max_len']):
        yield ('fa', idx, seed, tier)
        if len(idx) >= 6:
            mx, mn = signals.strict_extrema(idx)
            if len(mx) >= 2 and len(mn) >= 2:
                yield ('fa-res', idx, seed, tier)
                nscaled += 1
                if nscaled % (6 if tier == 'quick' else 3) == 0:
                    yield ('fa-tiny', idx, seed, tier)
                if nscaled % (6 if tier == 'quick' else 3) == (3 if tier == 'quick' else 1):
                    yield ('fa-huge', idx, seed, tier)
                if nscaled % (6 if tier == 'quick' else 3) == (1 if tier == 'quick' else 2):
                    yield ('fa-int', idx, seed, tier)
    # larger scope: hundreds of iterations on records of 128-512 samples (plateaus of the stopping metric, iteration
    # counters, anything that only happens after dozens of iterations)
    for name in LONG_SIGNALS:
        for ci in range(3):
            yield ('fbl', name, seed, tier, ci)
    # fixed counts far beyond a few dozen, on a nearly mono-component record (the envelope mean becomes tiny long
    # before the count is reached) with and without an offset, both signs
    for ci in range(4):
        yield ('fbl', ('tone', 256, 1, 'none', 'none'), seed, tier, 10 + ci)
    for name in signals.fb_names(b['fb_sizes']):
        yield ('fb', name, seed, tier)
        if name[1] <= 100:
            yield ('fb-res', name, seed, tier)


LONG_SIGNALS = [('tone', 128, 1, 'none', 'fm'), ('noise', 200, 3, 'none', 'none'), ('tone', 512, 3, 'quad', 'am'), ('walk', 256, 5, 'none', 'none')]
LONG_CFG = [(1e-6, 100), (1e-9, 300), (1e-12, 1000)]


def decode_case(c):
    return (c[0], tuple(c[1]), c[2], c[3]) + tuple(c[4:])


def signal_of(case):
    if case[0] == 'fa-int':
        return np.array(case[1], dtype=float)       # levels 0..3; handed to the library as an int64 / int16 array
    if case[0] in ('fa', 'fa-res', 'fa-tiny', 'fa-huge'):
        x = signals.fa_signal(case[1], 4, case[2])
        if case[0] == 'fa-tiny':
            return x * 1e-9        # sum(x^2) ~ 1e-17: absolute guards (eps, 1e-8, ...) in a scale-free rule show up here
        if case[0] == 'fa-huge':
            return x * 1e7
    else:
        if case[0] == 'fbl' and len(case) > 4 and case[4] >= 10:
            t = np.linspace(0, 1, 256)
            x = np.sin(2 * np.pi * (9.3 + 0.1 * (case[2] % 5)) * t + 0.4)
            x = (x + (0.0, 3.0, 3.0, 0.0)[case[4] - 10]) * (1.0, 1.0, -1.0, -1.0)[case[4] - 10]
        else:
            x = signals.fb_signal(case[1], case[2])
    if case[0].endswith('-res'):
        # non-initial state: the residual left after the reference's first default extraction
        seq = Seq(x[:, None], 'splrep', 2, 1.0)
        ev, idx, _ = predict(seq, 'sd', 0.1, 1000)
        if ev == 'stop':
            x = (x[:, None] - seq.items[idx][3])[:, 0]
        elif ev == 'vanish' and idx > 0:
            x = (x[:, None] - seq.h[idx])[:, 0]
    return x


class Seq:
    """Lazy reference iterate sequence for (signal, envelope config, step)."""

    def __init__(self, X, method, pad, step):
        self.method, self.pad, self.step = method, pad, step
        self.h = [X.copy()]
        self.items = []      # (U, L, m, c)
        self.vanish = None   # index at which envelopes could not be built

    def get(self, i):
        env = orig_env()
        while len(self.items) <= i and self.vanish is None:
            h = self.h[-1]
            opts = {'pad_width': self.pad}
            U = env(h, mode='upper', interp_method=self.method, extrema_opts=opts)
            L = env(h, mode='lower', interp_method=self.method, extrema_opts=opts)
            if U is None or L is None:
                self.vanish = len(self.items)
                break
            m = ((U + L) / 2)[:, None]
            c = h - m
            self.items.append((U, L, m, c))
            self.h.append(h - self.step * m)
        if self.vanish is not None and i >= self.vanish:
            return None
        return self.items[i]


def stop_decision(rule, par, item, h, index):
    """Return (stop?, margin) for iterate `index` (0-based)."""
    U, L, m, c = item
    if rule == 'sd':
        with np.errstate(all='ignore'):
            metric = np.sum(m ** 2) / np.sum(h ** 2)
        stop = bool(metric < par)
        margin = abs(metric - par) / par if np.isfinite(metric) else 1.0
        return stop, margin
    if rule == 'rilling':
        sd1, sd2, tol = par
        with np.errstate(all='ignore'):
            E = np.abs((U + L) / 2) / (np.abs(U - L) / 2)
        frac = np.mean(E > sd1)
        stop = bool(frac <= tol and not np.any(E > sd2))
        fin = E[np.isfinite(E)]
        margin = 1.0
        if len(fin):
            margin = min(np.min(np.abs(fin - sd1)) / sd1, np.min(np.abs(fin - sd2)) / sd2)
        return stop, margin
    return (index + 1 == par), 1.0


def predict(seq, rule, par, max_iters):
    """-> (event, index, guard_margin).  event in {'stop','vanish'}; index = 0-based iterate of the event."""
    margin = 1.0
    i = 0
    horizon = (par if rule == 'fixed' else max_iters + 1)
    while i < horizon:
        item = seq.get(i)
        if item is None:
            return 'vanish', i, margin
        stop, mg = stop_decision(rule, par, item, seq.h[i], i)
        margin = min(margin, mg)
        if stop:
            return 'stop', i, margin
        i += 1
    return 'limit', i, margin


def energy_db(X, imf):
    with np.errstate(all='ignore'):
        a = np.sum(X ** 2)
        b = np.sum((X - imf) ** 2)
        if a <= 0 or b <= 0:
            return None
        return 20 * np.log10(a) - 20 * np.log10(b)


def check_case(case):
    from emd.sift import get_next_imf
    from emd.support import EMDSiftCovergeError
    x = signal_of(case)
    X = x[:, None]
    N = len(x)
    tier = case[3]
    typed = None
    if case[0] == 'fa-int':
        typed = np.int64 if case[2] % 2 == 0 else np.int16
    b = bounds(tier)
    mx, mn = signals.strict_extrema(x)
    input_final = len(mx) < 2 or len(mn) < 2
    scale = 1e-10 * np.max(np.abs(x))      # purely relative: tiny and huge signals are judged as strictly as unit ones
    viols = []
    trans = 0
    excluded = 0
    maxdepth = 0
    d = 'x=%s' % (x.tolist() if N <= 12 else 'F_B%r' % (case[1],))
    maxiters_menu = MAXITERS
    classes = set()

    def one(seq, rule, par, step, max_iters, method, pad, energy=None):
        nonlocal trans, excluded, maxdepth
        ev, idx, margin = predict(seq, rule, par, max_iters)
        opts = dict(env_step_size=step, max_iters=max_iters, stop_method=rule,
                    envelope_opts={'interp_method': method}, extrema_opts={'pad_width': pad})
        if rule == 'sd':
            opts['sd_thresh'] = par
        elif rule == 'rilling':
            # (the triple is handed over as a tuple, a list or an array in turn: all are documented forms)
            _forms[0] += 1
            opts['rilling_thresh'] = (par, list(par), np.array(par))[_forms[0] % 3]
        if energy is not None:
            opts['energy_thresh'] = energy
        tag = '%s stop=%s%r step=%.3g max_iters=%d interp=%s pad=%d energy=%r' % (d, rule, par, step, max_iters, method, pad, energy)
        _calls[0] = 0
        xin = X.copy() if typed is None else X.astype(typed)
        raised = None
        try:
            imf, flag = get_next_imf(xin, **opts)
        except EMDSiftCovergeError as e:
            raised = e
        except Exception as e:
            viols.append(('raise:%s' % type(e).__name__, '%s raised %r' % (tag, e)))
            return
        trans += 1
        ncalls = _calls[0]
        # a result handed out earlier belongs to the caller: a later extraction must not have changed it
        if _held:
            h_obj, h_copy, h_tag = _held.pop()
            if not np.array_equal(h_obj, h_copy, equal_nan=True):
                viols.append(('earlier-result-changed', 'the array returned by [%s] was changed by the later call [%s]' % (h_tag, tag)))
        if raised is None and isinstance(imf, np.ndarray):
            _held.append((imf, imf.copy(), tag))
        if margin < 1e-9:
            excluded += 1
            return
        maxdepth = max(maxdepth, idx)
        classes.add(ev)
        limit = max_iters  # iterate index `limit` is the last one that may be evaluated
        if rule != 'fixed' and ncalls > 2 * (max_iters + 1):
            viols.append(('limit:too-many-iterations', '%s: %d envelope evaluations' % (tag, ncalls)))
        if ev == 'limit' or (rule != 'fixed' and idx > limit):
            if raised is None:
                viols.append(('limit:no-error', '%s: reference has not stopped after %d iterates but a value was returned' % (tag, max_iters + 1)))
            return
        if raised is not None:
            if rule != 'fixed' and idx == limit:
                return  # boundary iterate: either behaviour accepted
            viols.append(('limit:spurious-error', '%s: raised although the reference %ss at iterate %d' % (tag, ev, idx + 1)))
            return
        imf = np.asarray(imf)
        if imf.shape != (N, 1):
            viols.append(('shape', '%s: returned shape %r' % (tag, imf.shape)))
            return
        if ev == 'stop':
            want = seq.items[idx][3]
        else:
            want = seq.h[idx]
        if not np.max(np.abs(imf - want)) <= scale:
            # diagnose: returned a neighbouring iterate / without the mean removed?
            kind = 'value:%s' % ev
            if ev == 'stop' and np.max(np.abs(imf - seq.h[idx])) <= scale:
                kind = 'value:mean-not-removed'
            elif ev == 'stop' and idx + 1 < len(seq.h) and np.max(np.abs(imf - seq.h[idx + 1])) <= scale:
                kind = 'value:step-scaled-mean-removed'
            viols.append((kind, '%s: returned array differs from reference iterate %d (%s) by %.3g' % (
                tag, idx + 1, ev, np.max(np.abs(imf - want)))))
            return
        if ncalls != 2 * (idx + 1):
            viols.append(('iterations', '%s: %d envelope evaluations, reference needs %d' % (tag, ncalls, 2 * (idx + 1))))
        # continue flag
        want_flag = True
        if ev == 'vanish' and idx == 0:
            want_flag = False
        judged_flag = True
        if energy is not None and want_flag:
            db = energy_db(X, want)
            if db is None or abs(db - energy) < 1e-9 * (1 + abs(energy)):
                judged_flag = False
            elif db > energy:
                want_flag = False
        if judged_flag and bool(flag) != want_flag:
            k = 'flag:energy' if energy is not None else ('flag:vanish-mid-extraction' if ev == 'vanish' else 'flag')
            viols.append((k, '%s: continue_flag=%r expected %r (reference: %s at iterate %d)' % (tag, bool(flag), want_flag, ev, idx + 1)))
        if ev == 'vanish' and idx == 0:
            if not np.array_equal(imf, X):
                viols.append(('final-not-unmodified', '%s: input has too few extrema but was modified' % tag))
            if not input_final:
                viols.append(('harness:extrema-count', '%s: envelope stage and own extrema counter disagree' % tag))

    if case[0] in ('fb', 'fa') and not input_final:
        # every option omitted: the documented defaults (SD rule with threshold 0.1, full step, 1000 iterations,
        # cubic-spline envelopes, two padding extrema) govern
        seq0 = Seq(X, 'splrep', 2, 1.0)
        ev0, idx0, margin0 = predict(seq0, 'sd', 0.1, 1000)
        if margin0 >= 1e-9 and ev0 in ('stop', 'vanish'):
            try:
                imf0, _ = get_next_imf(X.copy())
                want0 = seq0.items[idx0][3] if ev0 == 'stop' else seq0.h[idx0]
                trans += 1
                if np.asarray(imf0).shape != (N, 1) or not np.max(np.abs(np.asarray(imf0) - want0)) <= scale:
                    viols.append(('defaults', '%s: get_next_imf(x) with every option omitted differs from the reference under the documented defaults by %.3g' % (
                        d, np.max(np.abs(np.asarray(imf0) - want0)) if np.asarray(imf0).shape == (N, 1) else -1)))
            except Exception as e:
                viols.append(('defaults:raise:%s' % type(e).__name__, '%s: get_next_imf(x) raised %r' % (d, e)))
    if case[0] == 'fbl' and case[4] >= 10:
        seq = Seq(X, ENVS[0][0], ENVS[0][1], 1.0)
        for n_ in (64, 65, 129, 200, 400):
            one(seq, 'fixed', n_, 1.0, n_, ENVS[0][0], ENVS[0][1])
        return Outcome(cls='long-run', transitions=trans, viols=viols, nontrivial=maxdepth >= 33)
    if case[0] == 'fbl':
        sd, mi = LONG_CFG[case[4]]
        seq = Seq(X, ENVS[0][0], ENVS[0][1], 1.0)
        one(seq, 'sd', sd, 1.0, mi, ENVS[0][0], ENVS[0][1])
        one(seq, 'rilling', (0.001, 0.01, 0.001), 1.0, mi, ENVS[0][0], ENVS[0][1])
        return Outcome(cls='long-run', transitions=trans, viols=viols, nontrivial=maxdepth >= 33)
    if input_final:
        # every configuration takes the same one-evaluation path: run one call per rule and envelope config
        for method, pad in ENVS:
            seq = Seq(X, method, pad, 1.0)
            one(seq, 'fixed', 2, 1.0, 2, method, pad)
            one(seq, 'sd', 0.1, 1.0, 1000, method, pad)
            one(seq, 'rilling', RILLING[0], 1.0, 1, method, pad)
        seq = Seq(X, ENVS[0][0], ENVS[0][1], 0.5)
        for en in ENERGY:
            one(seq, 'sd', 0.1, 0.5, 4, ENVS[0][0], ENVS[0][1], energy=en)
        return Outcome(cls='final', transitions=trans, viols=viols, nontrivial=False)
    envs = ENVS if b['long'] else (ENVS[:2] if case[0].endswith('-res') else ENVS[:3])
    steps = STEPS if b['long'] else (1.0, 1.0 / 3, 0.05)
    for method, pad in envs:
        for step in steps:
            seq = Seq(X, method, pad, step)
            for par in FIXED:
                one(seq, 'fixed', par, step, par, method, pad)
            for mi in maxiters_menu:
                for par in SD:
                    one(seq, 'sd', par, step, mi, method, pad)
                for par in RILLING:
                    one(seq, 'rilling', par, step, mi, method, pad)
            small = case[0].startswith('fa') or (case[0].startswith('fb') and case[1][1] <= 32)
            if (method, pad) == ENVS[0] and step in (1.0, 0.05) and small and (b['long'] or step == 1.0):
                for par in (SD if b['long'] else SD[:1]):
                    one(seq, 'sd', par, step, LONG, method, pad)
                for par in (RILLING if b['long'] else RILLING[:1]):
                    one(seq, 'rilling', par, step, LONG, method, pad)
            if (method, pad) == ENVS[0]:
                for en in ENERGY:
                    one(seq, 'sd', 0.1, step, 1000, method, pad, energy=en)
                    one(seq, 'fixed', 2, step, 2, method, pad, energy=en)
    cls = 'final' if input_final else ('deep' if maxdepth >= 1 else 'shallow')
    out = Outcome(cls=cls, transitions=trans, viols=viols, nontrivial=maxdepth >= 1)
    out.excluded = excluded > 0.5 * max(trans, 1)
    return out


def snippet(case, kind):
    x = signal_of(case)
    if len(x) > 12:
        return None
    return ('import numpy as np, emd\nx = np.array(%r)\n'
            'imf, flag = emd.sift.get_next_imf(x[:, None])\nprint(imf[:, 0], flag)\n' % (x.tolist(),))


def nonvacuity(rep, ctx):
    if not {'final', 'deep', 'long-run'} <= set(rep.classes):
        return ['vacuous: outcome classes %r' % dict(rep.classes)]
    return []
