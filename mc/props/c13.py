"""C13 - good cycles are exactly those meeting the documented phase criteria.

Space (explorer I): every phase sequence of length 1..L over a 6-value alphabet whose members lie strictly inside or
strictly outside each edge tolerance x phase_edge in {pi/12, pi/4, pi/2} x boolean validity masks (none, every mask up
to length Lm, every single-block mask beyond) ; container built from the same phases.
Oracle: criteria evaluated on the wrap-delimited segments of the all-cycles partition returned by the implementation.
"""
import itertools
import numpy as np

from ..engine.explore import Outcome, Refill, Holder

_refill = Refill()
_holder = Holder()
from ..engine import enum
from .c12 import runs_of

PID = 'C13'
TIMEOUT = 20.0
RULE = ('every phase sequence of length 1..L over a 6-value alphabet, and every concatenation of 2..T cycle templates '
        '(8 templates: good for all / some / no edge tolerances, with a reversal, two-sample cycles) x 3 phase_edge values; per case: no mask, '
        'every boolean mask (length <= Lm) or every single-block mask (longer), is_good on every segment, and the '
        'Cycles container; non-trivial = at least one segment is good and at least one is bad for that edge')
ASSUMPTIONS = ['alphabet values are never within rounding distance of an edge tolerance, so <= vs < is not decisive',
               'segments are taken from the implementation\'s own return_good=False partition (C12 guards that partition)']

ALPHABETS = [
    (0.1, 0.6, 1.3, 3.1, 5.2, 6.2),
    (0.05, 0.5, 1.4, 2.9, 5.0, 6.25),
    (0.2, 0.7, 1.2, 3.3, 4.9, 6.1),
]
EDGES = (np.pi / 12, np.pi / 4, np.pi / 2)
STEP = 1.5 * np.pi
_prev = {}


def bounds(tier):
    if tier == 'quick':
        return {'max_len': 5, 'all_masks_upto': 5, 'container_upto': 5, 'templates': 3}
    return {'max_len': 7, 'all_masks_upto': 6, 'container_upto': 6, 'templates': 4}


# cycle templates (indices into the 6-value alphabet): concatenations give series rich in good / nearly-good cycles
TEMPLATES = ((0, 3, 5), (1, 3, 5), (2, 3, 5), (0, 3, 4), (0, 2, 3, 5), (0, 3, 2, 5), (0, 5), (1, 4))


def cases(tier, seed):
    b = bounds(tier)
    for s in enum.sequences(range(6), 1, b['max_len']):
        for ei in range(3):
            yield (s, ei, seed, b['all_masks_upto'], b['container_upto'])
    # larger scope: the long synthetic phases of C12 (hundreds of samples, noisy, reversing), block masks
    from .c12 import long_phases
    for name, _ in long_phases(seed):
        for ei in range(3):
            yield (('LONG', name), ei, seed, 0, 0)
    # larger scope: cycles of hundreds of samples with masked blocks of 255 / 256 / 257 / 512 samples and scattered masks
    for ei in range(3):
        yield (('BLOCKS', 0), ei, seed, 0, 0)
    # larger scope: cycles of 5000 samples whose single plateau / reversal sits exactly on a power-of-two sample index
    for ei in range(3):
        yield (('SEAMS', 0), ei, seed, 0, 0)
        yield (('SEAMS', 1), ei, seed, 0, 0)
    # tolerances less than 1e-6 apart used one after the other in one process, on cycles that start / end between them
    for ei in range(3):
        yield (('NEAR-EDGES', 0), ei, seed, 0, 0)
    # smallest representable increases (one ulp, denormals, 1e-17) and exact repeats inside otherwise good cycles:
    # "strictly increasing" means > 0, however small the step; every ordered triple of the 8 cycle heads
    for trip in itertools.product(range(8), repeat=3):
        yield (('TINY', trip), 1, seed, 0, 0)
    for n in range(2, b['templates'] + 1):
        for combo in itertools.product(range(len(TEMPLATES)), repeat=n):
            s = tuple(v for t in combo for v in TEMPLATES[t])
            for ei in range(3):
                yield (s, ei, seed, 0, 99)


def decode_case(c):
    c = list(c)
    c[0] = tuple(c[0])
    return tuple(c)


def signature(kind, case):
    return kind


def criteria(seg, edge):
    inc = bool(np.all(np.diff(seg) > 0))
    start = 0 <= seg[0] <= edge
    end = 2 * np.pi - edge <= seg[-1] <= 2 * np.pi
    return inc and start and end


def masks_for(n, allupto):
    yield None
    if n <= allupto:
        for m in itertools.product((True, False), repeat=n):
            yield np.array(m, dtype=bool)
    else:
        yield np.ones(n, dtype=bool)
        stepa = 1 if n <= 40 else max(1, n // 9)
        for a in range(0, n, stepa):
            for b in range(a + 1, n + 1, stepa):
                m = np.ones(n, dtype=bool)
                m[a:b] = False
                yield m


def expected_labels(n, segs, keep):
    out = np.full(n, -1, dtype=int)
    k = 0
    for (a, b), ok in zip(segs, keep):
        if ok:
            out[a:b] = k
            k += 1
    return out


def check_case(case):
    from emd.cycles import get_cycle_vector, is_good, Cycles
    s, ei, seed, allupto, contupto = case
    al = ALPHABETS[seed % len(ALPHABETS)]
    edge = EDGES[ei]
    blocks = None
    if len(s) == 2 and s[0] == 'LONG':
        from .c12 import long_phases
        phase = dict(long_phases(seed))[s[1]]
    elif len(s) == 2 and s[0] == 'SEAMS':
        parts = []
        for pos in (256, 512, 1024, 2048, 4096, 1000, None, 2047, 2049):
            p_ = (np.arange(5000) + 0.37) / 5000 * 2 * np.pi
            if pos is not None:
                if s[1] == 0:
                    p_[pos] = p_[pos - 1]                      # plateau between samples pos-1 and pos
                else:
                    p_[pos - 1], p_[pos] = p_[pos], p_[pos - 1]  # reversal
            parts.append(p_)
        phase = np.concatenate(parts)
    elif len(s) == 2 and s[0] == 'NEAR-EDGES':
        return check_near_edges(case)
    elif len(s) == 2 and s[0] == 'TINY':
        return check_tiny(case)
    elif len(s) == 2 and s[0] == 'BLOCKS':
        lens = [40, 600, 1000, 300, 700, 50]
        phase = np.concatenate([(np.arange(n_) + 0.37) / n_ * 2 * np.pi for n_ in lens])
        starts = np.cumsum([0] + lens[:-1])
        blocks = []
        for c_, n_ in enumerate(lens):
            for ln in (1, 255, 256, 257, 512):
                if ln <= n_:
                    m_ = np.ones(len(phase), dtype=bool)
                    m_[starts[c_] + 3:starts[c_] + 3 + ln] = False
                    blocks.append(m_)
            if n_ >= 600:
                m_ = np.ones(len(phase), dtype=bool)
                m_[starts[c_] + np.arange(256) * 2] = False       # 256 scattered samples
                blocks.append(m_)
        m_ = np.ones(len(phase), dtype=bool)
        m_[starts[3]:starts[3] + 256] = False
        m_[starts[3] + 256:starts[4]] = True
        blocks.append(m_)
    else:
        phase = np.array([al[i] for i in s])
    n = len(phase)
    viols = []
    trans = 0
    desc = 'phase=%s phase_edge=%.4f' % (phase.tolist() if n <= 20 else 'long %r' % (s,), edge)
    try:
        allv = np.asarray(get_cycle_vector(phase.copy(), return_good=False, phase_step=STEP))[:, 0]
    except Exception as e:
        return Outcome(cls='raise', viols=[('raise:all:%s' % type(e).__name__, '%s raised %r' % (desc, e))])
    segs = [(a, b) for a, b, v in runs_of(allv) if v >= 0]
    good = [criteria(phase[a:b], edge) for a, b in segs]
    # is_good on each segment
    for (a, b), g in zip(segs, good):
        try:
            r = bool(is_good(phase[a:b].copy(), phase_edge=edge))
            chk = np.asarray(is_good(phase[a:b].copy(), ret_all_checks=True, phase_edge=edge))
        except Exception as e:
            viols.append(('raise:is_good:%s' % type(e).__name__, '%s segment %r raised %r' % (desc, (a, b), e)))
            continue
        trans += 1
        if r != g or bool(np.all(chk)) != g:
            viols.append(('is_good', '%s: is_good(%s)=%r checks=%s expected %r' % (desc, phase[a:b].tolist(), r, chk.tolist(), g)))
    for mask in (masks_for(n, allupto) if blocks is None else [None] + blocks):
        for rg in (True, False):
            if mask is None and not rg:
                continue
            try:
                if mask is None:
                    ph_in = _refill.primed(phase, 'phase', lambda b_: get_cycle_vector(b_, return_good=rg, phase_step=STEP, phase_edge=edge))
                    got = get_cycle_vector(ph_in, return_good=rg, phase_step=STEP, phase_edge=edge)
                else:
                    ph_in = _refill(phase, 'phase')
                    got = get_cycle_vector(ph_in, return_good=rg, mask=_refill(mask, 'mask'), phase_step=STEP, phase_edge=edge)
            except Exception as e:
                viols.append(('raise:%s:mask=%s' % (type(e).__name__, mask is not None),
                              '%s mask=%s good=%s raised %r' % (desc, None if mask is None else mask.tolist(), rg, e)))
                continue
            trans += 1
            for m_ in _holder.swap(got, 'get_cycle_vector %s return_good=%s' % (desc, rg)):
                viols.append(('earlier-result-changed', m_))
            if not np.array_equal(ph_in, phase):
                viols.append(('input-modified', '%s: the phase array was changed' % desc))
            got = np.asarray(got)[:, 0]
            if mask is not None and n <= 5 and rg:
                # the deprecated alias is the same function: same arguments, same answer
                try:
                    import warnings
                    from emd.cycles import get_cycle_inds
                    with warnings.catch_warnings():
                        warnings.simplefilter('ignore')
                        al_ = np.asarray(get_cycle_inds(phase.copy(), return_good=rg, mask=mask.copy(), phase_step=STEP, phase_edge=edge))[:, 0]
                    if not np.array_equal(al_, got):
                        viols.append(('alias-differs', '%s mask=%s: get_cycle_inds gives %s, get_cycle_vector %s' % (desc, mask.astype(int).tolist(), al_.tolist(), got.tolist())))
                except Exception as e:
                    viols.append(('raise:alias:%s' % type(e).__name__, '%s: get_cycle_inds raised %r' % (desc, e)))
            if mask is None and n <= 6:
                # as the second column of an [n x 2] phase whose first column never wraps (a trend): same labels
                try:
                    two = np.c_[np.linspace(0.2, 1.1, n), phase]
                    g2 = np.asarray(get_cycle_vector(two, return_good=rg, phase_step=STEP, phase_edge=edge))
                    if g2.shape != (n, 2) or not np.array_equal(g2[:, 1], got):
                        viols.append(('good-labels:second-column', '%s: as the second column of a two-column phase the labels are %s, alone %s' % (
                            desc, g2[:, 1].tolist() if g2.ndim == 2 and g2.shape[1] == 2 else g2.shape, got.tolist())))
                except Exception as e:
                    viols.append(('raise:two-columns:%s' % type(e).__name__, '%s as second column raised %r' % (desc, e)))
            keep = []
            for (a, b), g in zip(segs, good):
                ok = (g or not rg) and (mask is None or bool(np.all(mask[a:b])))
                keep.append(ok)
            want = expected_labels(n, segs, keep)
            if not np.array_equal(got, want):
                if mask is None:
                    kind = 'good-labels'
                else:
                    nomask = expected_labels(n, segs, [(g or not rg) for g in good])
                    kind = 'mask-veto' if np.array_equal(got, nomask) else 'mask-labels:good=%s' % rg
                viols.append((kind, '%s mask=%s return_good=%s: got %s expected %s' % (
                    desc, None if mask is None else mask.astype(int).tolist(), rg, got.tolist(), want.tolist())))
    # the container's per-cycle flag
    if segs and n <= contupto:
        for cache, col in ((True, False), (False, False), (True, True)):
            try:
                C = Cycles(phase[:, None].copy() if col else phase.copy(), phase_step=STEP, phase_edge=edge, use_cache=cache)
                flag = np.asarray(C.metrics['is_good'])
            except Exception as e:
                viols.append(('raise:container:%s' % type(e).__name__, '%s use_cache=%s column=%s raised %r' % (desc, cache, col, e)))
                continue
            trans += 1
            want = np.array(good, dtype=int)
            if flag.shape != want.shape or not np.array_equal(flag.astype(int), want):
                viols.append(('container-flag' + (':column-input' if col else ''), '%s use_cache=%s column=%s: metrics[is_good]=%s expected %s' % (desc, cache, col, flag.tolist(), want.tolist())))
    # state shared between container instances: the container of the previous case must still hold ITS flags
    prev = _prev.get('c')
    if prev is not None:
        pc, pwant, pdesc = prev
        try:
            pflag = np.asarray(pc.metrics['is_good']).astype(int)
            if pflag.shape != pwant.shape or not np.array_equal(pflag, pwant):
                viols.append(('container-flag:changed-by-later-instance', '%s: after building another container its is_good became %s (was %s)' % (
                    pdesc, pflag.tolist()[:12], pwant.tolist()[:12])))
        except Exception as e:
            viols.append(('container-flag:changed-by-later-instance', '%s: reading its metrics raised %r' % (pdesc, e)))
    if segs and n <= max(contupto, 16):
        try:
            keep = Cycles(phase.copy(), phase_step=STEP, phase_edge=edge)
            _prev['c'] = (keep, np.array(good, dtype=int), desc)
        except Exception:
            _prev.pop('c', None)
    if not segs:
        cls = 'nowrap'
    elif any(good) and not all(good):
        cls = 'mixed'
    elif any(good):
        cls = 'all-good'
    else:
        cls = 'all-bad'
    return Outcome(cls=cls, transitions=trans, viols=viols, nontrivial=(cls == 'mixed'))


def tiny_heads():
    q = 0.25
    return [np.r_[0.0, 5e-324], np.r_[0.0, 1e-17, 2e-17], np.r_[q, np.nextafter(q, 1)], np.r_[0.0, 0.0], np.r_[q, q],
            np.r_[1e-17, 0.0], np.r_[0.125, 0.125 + 2.0 ** -55, 0.125 + 2.0 ** -54], np.r_[0.01, 0.02]]


def check_tiny(case):
    """Cycles whose first steps are the smallest positive ones (good) or exact repeats / tiny decreases (bad)."""
    from emd.cycles import get_cycle_vector, is_good, Cycles
    s, ei, seed = case[:3]
    edge = EDGES[ei]
    step = np.pi
    heads = tiny_heads()
    cyc = [np.r_[heads[h], 2.0, 3.0, 4.5, 6.2] for h in s[1]]
    phase = np.concatenate(cyc)
    want_good = [criteria(c_, edge) for c_ in cyc]
    desc = 'cycles starting %s (then 2, 3, 4.5, 6.2), phase_edge=%.6f' % ([heads[h].tolist() for h in s[1]], edge)
    viols = []
    try:
        got = np.asarray(get_cycle_vector(phase.copy(), return_good=True, phase_step=step, phase_edge=edge))[:, 0]
        flags = [bool(is_good(c_.copy(), phase_edge=edge)) for c_ in cyc]
        cflag = np.asarray(Cycles(phase.copy(), phase_step=step, phase_edge=edge).metrics['is_good']).astype(int).tolist()
    except Exception as ex:
        return Outcome(cls='mixed', viols=[('raise:tiny-steps:%s' % type(ex).__name__, '%s raised %r' % (desc, ex))])
    lab = []
    k = 0
    for c_, g in zip(cyc, want_good):
        lab += [k if g else -1] * len(c_)
        k += 1 if g else 0
    if got.tolist() != lab:
        viols.append(('good-labels:tiny-steps', '%s: labels %s expected %s' % (desc, got.tolist(), lab)))
    if flags != want_good:
        viols.append(('is_good:tiny-steps', '%s: is_good %s expected %s' % (desc, flags, want_good)))
    if cflag != [int(g) for g in want_good]:
        viols.append(('container-flag:tiny-steps', '%s: container flags %s expected %s' % (desc, cflag, want_good)))
    cls = 'all-good' if all(want_good) else ('all-bad' if not any(want_good) else 'mixed')
    return Outcome(cls=cls, transitions=3, viols=viols, nontrivial=True)


def check_near_edges(case):
    """Tolerances e, e + 4e-7, e - 4e-7 used one after the other: each call is judged with ITS tolerance."""
    from emd.cycles import get_cycle_vector, is_good, Cycles
    s, ei, seed = case[:3]
    e = EDGES[ei]
    d = 2e-7
    mid = [2.0, 3.0, 4.0, 4.5]
    step = np.pi          # every boundary between these cycles is a drop of more than pi, every step inside one is smaller
    cyc = [np.r_[e + d, mid, 6.2], np.r_[e - d, mid, 6.2], np.r_[0.01, mid, 2 * np.pi - e - d], np.r_[0.01, mid, 2 * np.pi - e + d],
           np.r_[0.01, mid, 6.2]]
    phase = np.concatenate(cyc)
    viols = []
    trans = 0
    for edge in (e, e + 2 * d, e, e - 2 * d, e + 2 * d, np.round(e, 6), e):
        want_good = [criteria(c_, edge) for c_ in cyc]
        desc = 'near-tie cycles, phase_edge=%.9f (after other tolerances < 1e-6 away were used)' % edge
        try:
            got = np.asarray(get_cycle_vector(phase.copy(), return_good=True, phase_step=step, phase_edge=edge))[:, 0]
            flags = [bool(is_good(c_.copy(), phase_edge=edge)) for c_ in cyc]
            cflag = np.asarray(Cycles(phase.copy(), phase_step=step, phase_edge=edge).metrics['is_good']).astype(int).tolist()
        except Exception as ex:
            viols.append(('raise:near-edges:%s' % type(ex).__name__, '%s raised %r' % (desc, ex)))
            continue
        trans += 3
        lab = []
        k = 0
        for c_, g in zip(cyc, want_good):
            lab += [k if g else -1] * len(c_)
            k += 1 if g else 0
        if got.tolist() != lab:
            viols.append(('good-labels:near-tolerances', '%s: labels %s expected %s' % (desc, got.tolist(), lab)))
        if flags != want_good:
            viols.append(('is_good:near-tolerances', '%s: is_good %s expected %s' % (desc, flags, want_good)))
        if cflag != [int(g) for g in want_good]:
            viols.append(('container-flag:near-tolerances', '%s: container flags %s expected %s' % (desc, cflag, want_good)))
    return Outcome(cls='mixed', transitions=trans, viols=viols, nontrivial=True)


def snippet(case, kind):
    s, ei, seed = case[:3]
    if len(s) == 2 and s[0] in ('LONG', 'BLOCKS', 'SEAMS', 'NEAR-EDGES'):
        return None
    al = ALPHABETS[seed % len(ALPHABETS)]
    return ('import numpy as np, emd\n'
            'p = np.array(%r); e = %r\n'
            'print(emd.cycles.get_cycle_vector(p, return_good=False)[:, 0])\n'
            'print(emd.cycles.get_cycle_vector(p, return_good=True, phase_edge=e)[:, 0])\n'
            'print(emd.cycles.Cycles(p, phase_edge=e).metrics["is_good"])\n' % ([al[i] for i in s], EDGES[ei]))


def nonvacuity(rep, ctx):
    if not {'nowrap', 'mixed', 'all-good', 'all-bad'} <= set(rep.classes):
        return ['vacuous: outcome classes %r' % dict(rep.classes)]
    return []
