"""C20 - logging never changes results and verbosity overrides are temporary.

Explorer H as a *process tree*: a state is the operation history that reaches it; every node is a freshly forked
process that inherits the genuine process-global logging state of its parent node, applies one more operation, is
checked against the reference model, and then forks one child per next operation.  Exhaustive to the depth bound from
two roots (logger never set up / set up); no state merging (logging has hidden state a canonical form could miss).
"""
import json
import logging
import os
import pickle
import sys
import numpy as np

from ..engine.explore import Outcome
from ..engine import forkpool, guard
from . import signals

PID = 'C20'
TIMEOUT = 3000.0
RULE = ('every operation sequence of length 1..D over a 28-operation alphabet from both roots, one forked process per '
        'node; plus 12-member ensembles on 3 controlled workers (out-of-order completion) in 7 logger states; non-trivial = history contains a verbosity override or a raising call after the logger has been set up')
ASSUMPTIONS = ['worker pools are replaced by the in-process serial pool (the property concerns the logging wrappers)',
               'stdout of every node is /dev/null; the file handler writes under out/tmp',
               'reference results are computed once in the pristine root process']

LEVELS = ('CRITICAL', 'WARNING', 'INFO', 'DEBUG')
# every level name the standard library knows can be put on the console; overrides use the documented ones plus ERROR
ALL_LEVELS = LEVELS + ('ERROR', 'NOTSET')
OPS = ([('set_up', None), ('set_up', 'DEBUG'), ('set_up', 'WARNING'), ('set_up_file', None)] +
       [('set_level', l) for l in ALL_LEVELS] + [('disable', None), ('enable', None)] +
       [('call', v) for v in (None,) + LEVELS + ('ERROR',)] + [('call_raise', v) for v in (None,) + LEVELS + ('ERROR',)] +
       # the same variant twice within a short history (the rotating calls never repeat a variant within 3 steps)
       [('call_sift', None), ('call_sift', 'CRITICAL')] +
       # the second-layer sifts take the verbosity inside their sift_args
       [('call_second', None), ('call_second', 'DEBUG')])
VARIANTS = ('sift', 'mask_sift', 'ensemble_sift', 'complete_ensemble_sift')


def bounds(tier):
    return {'depth': 3 if tier == 'quick' else 4, 'ops': len(OPS), 'roots': 2}


def cases(tier, seed):
    d = bounds(tier)['depth']
    for root in ('never-set-up', 'set-up'):
        for i in range(len(OPS)):
            yield (root, i, d, seed)
    for si in range(len(POOL_STATES)):
        for v in ('ensemble_sift', 'complete_ensemble_sift'):
            yield ('pool', si, v, seed)


# logger states for the larger ensembles on a real multi-worker schedule: (operations, verbose argument of the call)
POOL_STATES = (((), 'omit'), ((('set_up', None),), 'omit'), ((('set_up', 'DEBUG'),), 'omit'), ((('set_up', None), ('disable', None)), 'omit'),
               ((('set_up_file', None),), 'omit'), ((('set_up', 'WARNING'),), 'DEBUG'), ((), 'INFO'))


def pool_call(variant, x, verbose, mp_obj):
    import emd.sift as S
    np.random.seed(5)
    kw = {} if verbose == 'omit' else {'verbose': verbose}
    with forkpool.installed(mp_obj):
        if variant == 'complete_ensemble_sift':
            out, noise = S.complete_ensemble_sift(x.copy(), nensembles=12, max_imfs=3, nprocesses=3, **kw)
            return np.c_[out, noise].tobytes()
        return np.asarray(S.ensemble_sift(x.copy(), nensembles=12, max_imfs=2, nprocesses=3, **kw)).tobytes()


def in_child(fn):
    """Run fn() in a forked child (pristine process-global logging state of the shard process); return its value."""
    r, w = os.pipe()
    pid = os.fork()
    if pid == 0:
        os.close(r)
        try:
            guard.silence_stdout()
            try:
                out = ('ok', fn())
            except BaseException as e:      # noqa
                out = ('raise', repr(e))
            with os.fdopen(w, 'wb') as f:
                pickle.dump(out, f)
        finally:
            os._exit(0)
    os.close(w)
    with os.fdopen(r, 'rb') as f:
        data = f.read()
    os.waitpid(pid, 0)
    return pickle.loads(data) if data else ('raise', 'child died')


def check_pool(case):
    import emd
    _, si, variant, seed = case
    ops, verbose = POOL_STATES[si]
    x = the_signal(seed)
    tmpdir = os.path.join(os.path.dirname(os.path.dirname(os.path.dirname(os.path.abspath(__file__)))), 'out', 'tmp')
    os.makedirs(tmpdir, exist_ok=True)
    sched = [[i % 3 for i in range(64)] for _ in range(8)]
    ref = in_child(lambda: pool_call(variant, x, 'omit', forkpool.SerialMP()))

    def body():
        for op in ops:
            apply_op(op, 0, seed, tmpdir)
        return pool_call(variant, x, verbose, forkpool.ControlledMP(sched))
    got = in_child(body)
    for fn in os.listdir(tmpdir):
        if fn.startswith('c20-'):
            try:
                os.unlink(os.path.join(tmpdir, fn))
            except OSError:
                pass
    viols = []
    tag = '%s(nensembles=12, nprocesses=3, verbose=%s) on 3 workers after %s' % (variant, verbose, fmt(list(ops)))
    if ref[0] != 'ok':
        viols.append(('call-fails-before-set-up', '%s: the plain serial call raised %s ##HIST[]' % (variant, ref[1])))
    elif got[0] != 'ok':
        viols.append(('pool:raise', '%s raised %s' % (tag, got[1])))
    elif got[1] != ref[1]:
        viols.append(('pool:result-depends-on-logging', '%s differs from the result of the never-set-up serial run' % tag))
    return Outcome(cls='pool', transitions=2, viols=viols, nontrivial=bool(ops), validated=1)


def the_signal(seed):
    return signals.fb_signal(('tone', 32, 2, 'lin', 'none'), seed)


def do_call(variant, x, verbose):
    import emd.sift as S
    np.random.seed(5)
    kw = {} if verbose == 'omit' else {'verbose': verbose}
    if variant == 'sift':
        # [n x 1 x 1] layout: the rarely visited corner of the input checks (which log what they do)
        xin = x if x.ndim > 1 else x[:, None, None]
        return S.sift(xin, max_imfs=3, **kw)
    if variant == 'sift-fixed100':
        # a fixed stop of 100 iterations: progress messages and counters inside the sifting loop
        return S.sift(x, max_imfs=1, imf_opts={'stop_method': 'fixed', 'max_iters': 100}, **kw)
    if variant == 'mask_sift':
        # array-valued keyword options with many decimals: the logging decorators see (and must not touch) them
        freqs = np.array([0.31234567, 0.12345678])
        amps = np.array([0.71234567, 1.23456789])
        out, used = S.mask_sift(x, max_imfs=2, nphases=2, mask_freqs=freqs, mask_amp=amps, mask_amp_mode='ratio_sig',
                                ret_mask_freq=True, **kw)
        if not (np.array_equal(freqs, [0.31234567, 0.12345678]) and np.array_equal(amps, [0.71234567, 1.23456789])):
            return np.full_like(out, np.nan)    # options were modified: reported as a result difference
        return np.c_[out, np.resize(np.asarray(used, dtype=float), out.shape[0])]
    if variant in ('second_layer', 'mask_second_layer'):
        first = S.sift(x, max_imfs=2)
        IA = np.abs(np.asarray(first)) + 0.1
        args = {'max_imfs': 2}
        if verbose != 'omit':
            args['verbose'] = verbose
        if variant == 'second_layer':
            return S.sift_second_layer(IA, sift_args=args)
        args['nphases'] = 2
        return S.mask_sift_second_layer(IA, np.array([0.2, 0.1]), sift_args=args)
    if variant == 'complete_ensemble_sift':
        out, noise = S.complete_ensemble_sift(x, nensembles=2, max_imfs=2, nprocesses=2, **kw)
        return np.c_[out, noise]
    return S.ensemble_sift(x, nensembles=2, max_imfs=2, nprocesses=2, **kw)


_ref = {}
_OFFSET = [0]     # the set-up root starts the variant rotation one step later, so depth 3 reaches all four variants


def references(seed):
    if not _ref:
        x = the_signal(seed)
        with forkpool.installed(forkpool.SerialMP()):
            for v in VARIANTS + ('sift-fixed100', 'second_layer', 'mask_second_layer'):
                _ref[v] = np.asarray(do_call(v, x.copy(), 'omit')).tobytes()
    return _ref


def model_step(st, op):
    st = dict(st)
    name, arg = op
    if name in ('set_up', 'set_up_file'):
        st['setup'] = True
        st['level'] = logging.INFO if arg is None else getattr(logging, arg)
    elif name == 'set_level':
        if st['setup']:
            st['level'] = getattr(logging, arg)
    elif name == 'disable':
        st['disabled'] = True
    elif name == 'enable':
        st['disabled'] = False
    return st


def apply_op(op, pos, seed, tmpdir):
    """Run one operation on the real logger / sift; return list of (kind, message)."""
    import emd
    name, arg = op
    viols = []
    x = the_signal(seed)
    try:
        if name == 'set_up':
            emd.logger.set_up(level=arg)
        elif name == 'set_up_file':
            emd.logger.set_up(log_file=os.path.join(tmpdir, 'c20-%d.log' % os.getpid()))
        elif name == 'set_level':
            emd.logger.set_level(arg)
        elif name == 'disable':
            emd.logger.disable()
        elif name == 'enable':
            emd.logger.enable()
        elif name in ('call', 'call_sift', 'call_second'):
            v = VARIANTS[(pos + _OFFSET[0]) % 4] if name == 'call' else ('sift-fixed100' if name == 'call_sift' else ('second_layer', 'mask_second_layer')[(pos + _OFFSET[0]) % 2])
            got = np.asarray(do_call(v, x.copy(), arg)).tobytes()
            if got != references(seed)[v]:
                viols.append(('result-depends-on-logging', '%s(verbose=%r) returned a different result' % (v, arg)))
        elif name == 'call_raise':
            v = VARIANTS[(pos + _OFFSET[0]) % 4]
            bad = np.tile(x[:, None, None], (1, 2, 3))
            try:
                do_call(v, bad, arg)
                viols.append(('harness:no-raise', '%s accepted a 3-d input' % v))
            except ValueError:
                pass
            except Exception as e:
                viols.append(('raising-call:wrong-exception', '%s(verbose=%r) on invalid input raised %r instead of the input error' % (v, arg, e)))
    except Exception as e:
        before = 'before-set-up' if not getattr(apply_op, 'setup_seen', False) else 'after-set-up'
        viols.append(('op-raised:%s:%s' % (name, type(e).__name__), '%s(%r) raised %r' % (name, arg, e)))
    return viols


def subtree(history, st, depth_left, seed, tmpdir, acc):
    """Fork one child per operation; the child applies it, checks, recurses, reports back through a pipe."""
    for op in OPS:
        r, w = os.pipe()
        pid = os.fork()
        if pid == 0:
            os.close(r)
            code = 0
            try:
                out = node(history + [op], st, op, depth_left, seed, tmpdir)
                with os.fdopen(w, 'wb') as f:
                    pickle.dump(out, f)
            except BaseException:
                code = 3
            finally:
                os._exit(code)
        os.close(w)
        with os.fdopen(r, 'rb') as f:
            data = f.read()
        _, status = os.waitpid(pid, 0)
        if status != 0 or not data:
            acc['errors'].append('node %r died (status %r)' % (history + [op], status))
            continue
        merge(acc, pickle.loads(data))


def merge(acc, out):
    acc['nodes'] += out['nodes']
    acc['nontrivial'] += out['nontrivial']
    acc['errors'].extend(out['errors'])
    acc['obs'] |= out['obs']
    for k, v in out['viols'].items():
        if k not in acc['viols']:
            acc['viols'][k] = v
        else:
            cur = acc['viols'][k]
            acc['viols'][k] = (cur[0] + v[0],) + (cur[1:] if len(cur[1]) <= len(v[1]) else v[1:])


def fresh():
    return {'nodes': 0, 'nontrivial': 0, 'errors': [], 'viols': {}, 'obs': set()}


def node(history, st, op, depth_left, seed, tmpdir):
    import emd
    acc = fresh()
    acc['nodes'] = 1
    pos = len(history) - 1
    viols = apply_op(op, pos, seed, tmpdir)
    st2 = model_step(st, op)
    try:
        lvl = emd.logger.get_level()
    except Exception as e:
        lvl = 'get_level raised %r' % (e,)
    # the console handler's own level, read without the library's accessor
    raw = [h.level for h in logging.getLogger('emd').handlers if h.get_name() == 'console']
    raw = raw[0] if raw else None
    if lvl == st2['level'] and raw != st2['level']:
        k = ('level-not-restored' if op[0].startswith('call') else 'level-model') + ':console-handler'
        viols.append((k, 'the console handler is at level %r (get_level() says %r), expected %r' % (raw, lvl, st2['level'])))
    if lvl != st2['level']:
        k = 'level-not-restored' if op[0].startswith('call') else 'level-model'
        if op[0] == 'call_raise':
            k += ':after-exception'
        viols.append((k, 'console level is %r, expected %r' % (lvl, st2['level'])))
    disabled = logging.root.manager.disable >= logging.CRITICAL
    if disabled != st2['disabled']:
        viols.append(('disabled-model', 'logging disabled=%r expected %r' % (disabled, st2['disabled'])))
    for k, m in viols:
        if op[0].startswith('call') and not st['setup'] and op[1] is not None:
            k += ':before-set-up'
        acc['viols'][k] = (1, list(history), '%s after history %s ##HIST%s' % (m, fmt(history), json.dumps(history)))
    acc['obs'].add((st2['setup'], st2['level'], st2['disabled']))
    if any(o[0].startswith('call') and o[1] is not None for o in history) and st2['setup']:
        acc['nontrivial'] = 1
    if depth_left > 1 and not viols:
        subtree(history, st2, depth_left - 1, seed, tmpdir, acc)
    elif depth_left > 1:
        # keep exploring below a violating node, from the model state the implementation should be in is unknown:
        # continue with the model resynchronised to the observed level so deeper violations are not masked
        st3 = dict(st2)
        st3['level'] = lvl if isinstance(lvl, (int, type(None))) else st2['level']
        subtree(history, st3, depth_left - 1, seed, tmpdir, acc)
    return acc


def fmt(history):
    return '[' + ', '.join('%s(%s)' % (n, '' if a is None else a) for n, a in history) + ']'


def check_case(case):
    import emd
    if case[0] == 'history':
        return check_history(case)
    if case[0] == 'pool':
        return check_pool(case)
    root, i, depth, seed = case
    tmpdir = os.path.join(os.path.dirname(os.path.dirname(os.path.dirname(os.path.abspath(__file__)))), 'out', 'tmp')
    os.makedirs(tmpdir, exist_ok=True)
    # this (already forked) shard process is the pristine root for the case: everything below runs in grandchildren
    r, w = os.pipe()
    pid = os.fork()
    if pid == 0:
        os.close(r)
        code = 0
        try:
            guard.silence_stdout()
            try:
                references(seed)
            except Exception as e:
                # the plain calls fail in the pristine (never set up) logger state: that IS a dependence on the logger state
                out = fresh()
                out['nodes'] = 1
                out['viols']['call-fails-before-set-up'] = (1, [], 'a sift variant called without any logging set-up raised %r ##HIST[]' % (e,))
                with os.fdopen(w, 'wb') as f:
                    pickle.dump(out, f)
                os._exit(0)
            st = {'setup': False, 'level': None, 'disabled': False}
            hist = []
            _OFFSET[0] = 1 if root == 'set-up' else 0
            if root == 'set-up':
                emd.logger.set_up()
                st = model_step(st, ('set_up', None))
            forkpool_ctx = forkpool.installed(forkpool.SerialMP())
            forkpool_ctx.__enter__()
            out = node(hist + [OPS[i]], st, OPS[i], depth, seed, tmpdir)
            with os.fdopen(w, 'wb') as f:
                pickle.dump(out, f)
        except BaseException:
            import traceback
            traceback.print_exc()
            code = 3
        finally:
            os._exit(code)
    os.close(w)
    with os.fdopen(r, 'rb') as f:
        data = f.read()
    _, status = os.waitpid(pid, 0)
    for fn in os.listdir(tmpdir):
        if fn.startswith('c20-'):
            try:
                os.unlink(os.path.join(tmpdir, fn))
            except OSError:
                pass
    if status != 0 or not data:
        return Outcome(cls='harness', viols=[('harness:subtree-died', 'subtree %r died with status %r' % (case, status))])
    out = pickle.loads(data)
    viols = [('%s' % k, '%s: %s' % (root, v[2])) for k, v in sorted(out['viols'].items(), key=lambda kv: len(kv[1][1]))]
    if out['errors']:
        viols.append(('harness:node-died', out['errors'][0]))
    o = Outcome(cls=root, transitions=out['nodes'], viols=viols, nontrivial=out['nontrivial'] > 0, validated=out['nodes'])
    o.extra = {'nontrivial_nodes': out['nontrivial'], 'distinct_logger_observations': len(out['obs'])}
    return o


def replay_case(case, kind, message):
    """The replay artefact of a violation is the single history that exhibits it."""
    if '##HIST' in message:
        hist = json.loads(message.split('##HIST', 1)[1])
        return ('history', case[0], hist, case[3])
    return case


def check_history(case):
    """Plain replay of one history in one fresh process, checking the model after every step."""
    import emd
    _, root, hist, seed = case
    tmpdir = os.path.join(os.path.dirname(os.path.dirname(os.path.dirname(os.path.abspath(__file__)))), 'out', 'tmp')
    os.makedirs(tmpdir, exist_ok=True)
    r, w = os.pipe()
    pid = os.fork()
    if pid == 0:
        os.close(r)
        try:
            guard.silence_stdout()
            viols = []
            try:
                references(seed)
            except Exception as e:
                viols.append(('call-fails-before-set-up', 'a sift variant called without any logging set-up raised %r' % (e,)))
                with os.fdopen(w, 'wb') as f:
                    pickle.dump(viols, f)
                os._exit(0)
            st = {'setup': False, 'level': None, 'disabled': False}
            _OFFSET[0] = 1 if root == 'set-up' else 0
            if root == 'set-up':
                emd.logger.set_up()
                st = model_step(st, ('set_up', None))
            with forkpool.installed(forkpool.SerialMP()):
                for pos, op in enumerate(hist):
                    op = (op[0], op[1])
                    v = apply_op(op, pos, seed, tmpdir)
                    st = model_step(st, op)
                    lvl = emd.logger.get_level()
                    if lvl != st['level']:
                        v.append(('level', 'after step %d %r the console level is %r, expected %r' % (pos, op, lvl, st['level'])))
                        st['level'] = lvl
                    viols.extend(v)
            with os.fdopen(w, 'wb') as f:
                pickle.dump(viols, f)
        finally:
            os._exit(0)
    os.close(w)
    with os.fdopen(r, 'rb') as f:
        data = f.read()
    os.waitpid(pid, 0)
    viols = pickle.loads(data) if data else [('harness', 'replay process died')]
    return Outcome(cls='history', viols=[(k, '%s: %s' % (root, m)) for k, m in viols])


def decode_case(c):
    return tuple(c)


def run(ctx):
    rep = ctx.explore(lambda: cases(ctx.tier, ctx.seed), check_case, timeout_s=TIMEOUT)
    ctx.coverage_extra['states'] = rep.transitions
    ctx.coverage_extra['subtrees'] = rep.evaluations
    ctx.coverage_extra['evaluations'] = rep.transitions
    ctx.coverage_extra['distinct_nontrivial'] = int(rep.extra.get('nontrivial_nodes', 0))
    return rep


def nonvacuity(rep, ctx):
    if not {'never-set-up', 'set-up', 'pool'} <= set(rep.classes):
        return ['vacuous: outcome classes %r' % dict(rep.classes)]
    return []
