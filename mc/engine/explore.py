"""Explorer I: run a check function over every case of an enumerated finite space, sharded over forked workers.

A property module supplies
    cases()            -> iterable of JSON-able case descriptors (deterministic order, simplest first)
    check_case(case)   -> Outcome
and gets back an aggregated Report.  Nothing is sampled: every worker walks the same
generator and executes the cases whose index is congruent to its shard number.
"""
import collections
import os
import pickle
import sys
import tempfile
import time
import traceback

from . import guard

NCPU = int(os.environ.get('VERIF_JOBS', os.cpu_count() or 4))
OUT = os.path.join(os.path.dirname(os.path.dirname(os.path.dirname(os.path.abspath(__file__)))), 'out')


class Outcome:
    """Result of one case.

    cls         : outcome class (path taken), for non-vacuity accounting
    transitions : implementation steps executed and compared in this case
    viols       : list of (kind, message) - kind identifies the oracle clause / site that failed
    excluded    : case fell into a guard band and was not judged
    nontrivial  : case is non-trivial by the module's rule
    """
    __slots__ = ('cls', 'transitions', 'viols', 'excluded', 'nontrivial', 'validated', 'digest', 'extra')

    def __init__(self, cls='ok', transitions=1, viols=None, excluded=False, nontrivial=True, validated=1):
        self.cls = cls
        self.transitions = transitions
        self.viols = viols or []
        self.excluded = excluded
        self.nontrivial = nontrivial
        self.validated = validated
        self.extra = None


class Report:
    def __init__(self):
        self.evaluations = 0
        self.transitions = 0
        self.validated = 0
        self.nontrivial = 0
        self.excluded = 0
        self.timeouts = 0
        self.classes = collections.Counter()
        self.viols = {}      # kind -> [count, first_index, first_case, message]
        self.samples = []
        self.errors = []     # harness errors (strings)
        self.extra = {}
        self.slowest = []

    def merge(self, other):
        self.evaluations += other.evaluations
        self.transitions += other.transitions
        self.validated += other.validated
        self.nontrivial += other.nontrivial
        self.excluded += other.excluded
        self.timeouts += other.timeouts
        self.classes.update(other.classes)
        for k, v in other.viols.items():
            if k not in self.viols:
                self.viols[k] = list(v)
            else:
                cur = self.viols[k]
                cur[0] += v[0]
                if v[1] < cur[1]:
                    cur[1:] = v[1:]
        self.samples.extend(other.samples)
        self.errors.extend(other.errors)
        self.slowest = sorted(self.slowest + getattr(other, 'slowest', []), reverse=True)[:5]
        for k, v in other.extra.items():
            if isinstance(v, (int, float)):
                self.extra[k] = self.extra.get(k, 0) + v
            elif isinstance(v, collections.Counter):
                self.extra.setdefault(k, collections.Counter()).update(v)
            else:
                self.extra.setdefault(k, v)

    def add(self, index, case, out):
        self.evaluations += 1
        self.transitions += out.transitions
        self.validated += out.validated
        self.classes[out.cls] += 1
        if out.excluded:
            self.excluded += 1
        if out.nontrivial:
            self.nontrivial += 1
        for kind, msg in out.viols:
            if kind not in self.viols:
                self.viols[kind] = [1, index, case, msg]
            else:
                self.viols[kind][0] += 1
        if getattr(out, 'extra', None):
            for k, v in out.extra.items():
                self.extra[k] = self.extra.get(k, 0) + v


def _worker(shard, nshards, cases, check_case, timeout_s, path, sample_every, init=None):
    rep = Report()
    slow = [(0.0, ''), (0.0, '')]
    try:
        if init is not None:
            init()
        for index, case in enumerate(cases()):
            if index % nshards != shard:
                continue
            t0 = time.time()
            try:
                with guard.watchdog(timeout_s):
                    out = check_case(case)
            except guard.CaseTimeout:
                rep.timeouts += 1
                out = Outcome(cls='timeout', viols=[('timeout', 'case exceeded %ss watchdog' % timeout_s)])
            dt = time.time() - t0
            if dt > slow[0][0]:
                slow[0] = (round(dt, 2), repr(case)[:160])
                slow.sort()
            rep.add(index, case, out)
            if len(rep.samples) < 2 and (index // nshards) % sample_every == 0:
                rep.samples.append({'case': case, 'outcome': out.cls})
    except BaseException:
        rep.errors.append('shard %d: %s' % (shard, traceback.format_exc()))
    rep.slowest = [x for x in slow if x[0] > 0]
    with open(path, 'wb') as f:
        pickle.dump(rep, f)


def run_sharded(cases, check_case, timeout_s=10.0, nworkers=None, sample_every=997, init=None):
    """Fork nworkers children; child i checks every case with index % nworkers == i."""
    nworkers = nworkers or NCPU
    os.makedirs(os.path.join(OUT, 'tmp'), exist_ok=True)
    tmpdir = tempfile.mkdtemp(dir=os.path.join(OUT, 'tmp'))
    pids = []
    sys.stdout.flush()
    sys.stderr.flush()
    for i in range(nworkers):
        path = os.path.join(tmpdir, 'shard%d.pkl' % i)
        pid = os.fork()
        if pid == 0:
            code = 0
            try:
                guard.silence_stdout()
                _worker(i, nworkers, cases, check_case, timeout_s, path, sample_every, init)
            except BaseException:
                code = 3
            finally:
                os._exit(code)
        pids.append((pid, path, i))
    total = Report()
    for pid, path, i in pids:
        _, status = os.waitpid(pid, 0)
        if status != 0 or not os.path.exists(path):
            total.errors.append('shard %d died with status %r' % (i, status))
            continue
        with open(path, 'rb') as f:
            total.merge(pickle.load(f))
        os.unlink(path)
    try:
        os.rmdir(tmpdir)
    except OSError:
        pass
    total.samples = total.samples[:6]
    return total


def run_serial(cases, check_case, timeout_s=10.0):
    rep = Report()
    for index, case in enumerate(cases()):
        try:
            with guard.watchdog(timeout_s):
                out = check_case(case)
        except guard.CaseTimeout:
            rep.timeouts += 1
            out = Outcome(cls='timeout', viols=[('timeout', 'case exceeded %ss watchdog' % timeout_s)])
        rep.add(index, case, out)
        if len(rep.samples) < 4:
            rep.samples.append({'case': case, 'outcome': out.cls})
    return rep


class Holder:
    """Results handed out by earlier calls belong to the caller: a later call must not change them.

    `swap(obj, tag)` first compares every array of the results it still holds with the snapshot taken when they were
    handed over (-> list of messages, one per changed earlier result), then holds `obj` (the very object the library
    returned, plus a private copy).  Holds the last `depth` results; works across cases of one worker process, which
    is exactly where a module-level buffer that is reused for equal shapes shows."""

    def __init__(self, depth=2):
        self.depth = depth
        self.items = []

    @staticmethod
    def _arrays(obj, out):
        import numpy as np
        if isinstance(obj, np.ndarray):
            out.append(obj)
        elif isinstance(obj, (tuple, list)):
            for v in obj:
                Holder._arrays(v, out)
        elif hasattr(obj, 'data') and hasattr(obj, 'tocoo') and isinstance(getattr(obj, 'data', None), np.ndarray):
            out.append(obj.data)           # scipy sparse: the value buffer
        elif hasattr(obj, 'to_numpy'):
            pass                            # data frames are built per request
        return out

    def swap(self, obj, tag):
        import numpy as np
        msgs = []
        for arrs, snaps, t in self.items:
            for a, s in zip(arrs, snaps):
                same = a.shape == s.shape and (np.array_equal(a, s, equal_nan=True) if a.dtype.kind in 'fc' else np.array_equal(a, s))
                if not same:
                    msgs.append('the result returned by [%s] was changed by the later call [%s]' % (t, tag))
                    break
        arrs = self._arrays(obj, [])
        if arrs:
            self.items.append((arrs, [a.copy() for a in arrs], tag))
            self.items = self.items[-self.depth:]
        return msgs


class Refill:
    """Caller-owned input buffers that are refilled IN PLACE from case to case (same object, same address, new
    contents) - the way a processing loop reuses its arrays.  Anything the library remembers about an argument by
    identity instead of by value is then stale on the next case of the same shape and dtype."""

    def __init__(self):
        self.bufs = {}

    def __call__(self, arr, slot=''):
        import numpy as np
        arr = np.asarray(arr)
        key = (slot, arr.shape, arr.dtype.str)
        b = self.bufs.get(key)
        if b is None:
            b = self.bufs[key] = arr.copy()
            return b
        b[...] = arr
        return b

    def primed(self, arr, slot, call):
        """Like __call__, but first runs `call(buffer)` on the buffer's PREVIOUS contents (if it has any): the library
        then sees two consecutive calls on the very same object with different contents, which is what defeats a
        single-slot memo of "the last request"."""
        import numpy as np
        arr = np.asarray(arr)
        b = self.bufs.get((slot, arr.shape, arr.dtype.str))
        if b is None:
            # first use (e.g. the replay of a single case): the "previous contents" are the case's own values, rotated
            b = self(np.roll(arr, 1, axis=0), slot)
        try:
            call(b)
        except Exception:
            pass
        return self(arr, slot)
