"""Deterministic exhaustive generators for small finite spaces."""
import itertools


def sequences(levels, lmin, lmax):
    """Every sequence of length lmin..lmax over `levels`, shortest first, lexicographic."""
    for n in range(lmin, lmax + 1):
        for s in itertools.product(levels, repeat=n):
            yield s


def bool_vectors(lmin, lmax):
    for n in range(lmin, lmax + 1):
        for s in itertools.product((0, 1), repeat=n):
            yield s


def compositions(total, parts):
    """All tuples of positive integers drawn from `parts` summing to `total`."""
    if total == 0:
        yield ()
        return
    for p in parts:
        if p <= total:
            for rest in compositions(total - p, parts):
                yield (p,) + rest


def restricted_growth_strings(n, maxblocks):
    """All set partitions of n items into <= maxblocks blocks as restricted-growth strings."""
    def rec(prefix, m):
        if len(prefix) == n:
            yield tuple(prefix)
            return
        for b in range(min(m + 1, maxblocks - 1) + 1):
            prefix.append(b)
            yield from rec(prefix, max(m, b))
            prefix.pop()
    if n == 0:
        yield ()
        return
    yield from rec([0], 0)


def product_grid(d):
    """Cartesian product of a dict of lists -> dicts, in key order."""
    keys = list(d)
    for vals in itertools.product(*[d[k] for k in keys]):
        yield dict(zip(keys, vals))


def shard(iterable, i, n):
    for k, item in enumerate(iterable):
        if k % n == i:
            yield item
