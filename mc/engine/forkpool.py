"""Explorer S: a controlled fork pool installed at the seam `emd.sift.mp`.

ControlledMP mimics the surface of `multiprocessing` that emd/sift.py uses (Pool(processes=), starmap, close,
terminate, join, context manager, current_process()._identity).  Pool(P) really forks P workers when it is created
(each worker is an OS-level copy of the parent at that instant: RNG state, module globals, logging state).
starmap chunks exactly like CPython's Pool and then consults the *schedule*: for every chunk, the worker that
executes it.  Chunks are executed one at a time (workers share no memory, so serialising them loses no behaviour);
per worker, chunks run in ascending order (the real pool's task queue is FIFO).

The schedule space for C chunks on P workers is the set of functions chunks->workers modulo worker renaming =
restricted-growth strings of length C with at most P blocks; `schedules()` enumerates it completely.

SerialMP is the trivial in-process pool (no fork) used where the pool is irrelevant to the property.
"""
import atexit
import itertools
import os
import pickle
import select
import struct
import sys
import traceback

from . import enum

_KEEP = []
_ORPHANS = []       # pools left open by the library when a controlled section ended (still alive)
MAX_ORPHANS = 3
TRACE = []          # seams running inside a worker (or the parent) append records here


class _Proc:
    def __init__(self, ident):
        self._identity = ident
        self.name = 'ControlledWorker-%s' % (ident,)


_current = _Proc(())


class HarnessError(Exception):
    pass


def _send(fd, obj):
    data = pickle.dumps(obj, protocol=pickle.HIGHEST_PROTOCOL)
    os.write(fd, struct.pack('<Q', len(data)))
    view = memoryview(data)
    while view:
        n = os.write(fd, view)
        view = view[n:]


def _recv(fd, deadline=120.0):
    def readn(n):
        buf = bytearray()
        while len(buf) < n:
            r, _, _ = select.select([fd], [], [], deadline)
            if not r:
                raise HarnessError('controlled pool: no answer from worker within %ss' % deadline)
            chunk = os.read(fd, n - len(buf))
            if not chunk:
                raise HarnessError('controlled pool: worker closed its pipe')
            buf.extend(chunk)
        return bytes(buf)
    (n,) = struct.unpack('<Q', readn(8))
    return pickle.loads(readn(n))


class _Worker:
    def __init__(self, index, initializer=None, initargs=()):
        self.index = index
        p2c_r, p2c_w = os.pipe()
        c2p_r, c2p_w = os.pipe()
        sys.stdout.flush()
        sys.stderr.flush()
        pid = os.fork()
        if pid == 0:
            os.close(p2c_w)
            os.close(c2p_r)
            code = 0
            try:
                global _current
                _current = _Proc((index + 1,))
                del TRACE[:]
                _KEEP.append(_ORPHANS[:])            # pools of the parent are not this process's to stop
                del _ORPHANS[:]
                if initializer is not None:
                    initializer(*initargs)
                while True:
                    msg = _recv(p2c_r, deadline=3600.0)
                    if msg[0] == 'stop':
                        break
                    _, func, chunk = msg
                    out = []
                    err = None
                    try:
                        for args in chunk:
                            out.append(func(*args))
                    except BaseException as e:  # noqa
                        err = (type(e).__name__, str(e), traceback.format_exc(), _try_pickle(e))
                    tr = list(TRACE)
                    del TRACE[:]
                    _send(c2p_w, (out, err, tr, os.getpid()))
            except BaseException:
                code = 3
            finally:
                os._exit(code)
        os.close(p2c_r)
        os.close(c2p_w)
        self.pid = pid
        self.to = p2c_w
        self.frm = c2p_r
        self.alive = True

    def run(self, func, chunk):
        _send(self.to, ('run', func, chunk))
        return _recv(self.frm)

    def stop(self):
        if not self.alive:
            return
        self.alive = False
        try:
            _send(self.to, ('stop',))
        except OSError:
            pass
        os.close(self.to)
        os.close(self.frm)
        try:
            os.waitpid(self.pid, 0)
        except ChildProcessError:
            pass


def _try_pickle(e):
    try:
        pickle.dumps(e)
        return e
    except Exception:
        return None


class _Ready:
    """AsyncResult of a call that the controlled pool has already carried out."""

    def __init__(self, value):
        self.value = value

    def get(self, timeout=None):
        return self.value

    def wait(self, timeout=None):
        pass

    def ready(self):
        return True

    def successful(self):
        return True


class ControlledPool:
    def __init__(self, owner, processes, initializer=None, initargs=(), maxtasksperchild=None, context=None):
        self.owner = owner
        self.P = processes or (os.cpu_count() or 1)
        self.pool_index = len(owner.pools)
        owner.pools.append({'P': self.P, 'chunks': [], 'ntasks': []})
        self.workers = [_Worker(i, initializer, tuple(initargs)) for i in range(self.P)]
        self.consumed = 0
        self.closed = False
        self.stopped = False
        self.owner_pid = os.getpid()

    # -- multiprocessing.Pool surface used by emd -------------------------------------------------
    def starmap(self, func, iterable, chunksize=None):
        return [r for chunk in self._run_chunks(func, iterable, chunksize) for r in chunk]

    def _run_chunks(self, func, iterable, chunksize=None):
        if self.closed or self.stopped:
            raise ValueError('Pool not running')
        tasks = [tuple(t) for t in iterable]
        if not tasks:
            return []
        if chunksize is None:
            chunksize, extra = divmod(len(tasks), self.P * 4)
            if extra:
                chunksize += 1
        chunks = [tasks[i:i + chunksize] for i in range(0, len(tasks), chunksize)]
        info = self.owner.pools[self.pool_index]
        info['chunks'].append(len(chunks))
        info['ntasks'].append(len(tasks))
        sched = self.owner.assignment(self.pool_index, self.consumed, len(chunks), self.P)
        self.consumed += len(chunks)
        results = []
        for ci, (chunk, w) in enumerate(zip(chunks, sched)):
            if not 0 <= w < self.P:
                raise HarnessError('schedule names worker %d of %d' % (w, self.P))
            out, err, tr, pid = self.workers[w].run(func, chunk)
            self.owner.log.append({'pool': self.pool_index, 'chunk': self.consumed - len(chunks) + ci, 'worker': w,
                                   'ntasks': len(chunk), 'trace': tr})
            if err is not None:
                exc = err[3]
                if exc is None:
                    exc = RuntimeError('%s in worker: %s' % (err[0], err[1]))
                raise exc
            results.append(out)
        return results

    def starmap_async(self, func, iterable, chunksize=None, callback=None, error_callback=None):
        return _Ready(self.starmap(func, iterable, chunksize))

    def map_async(self, func, iterable, chunksize=None, callback=None, error_callback=None):
        return _Ready(self.map(func, iterable, chunksize))

    def apply_async(self, func, args=(), kwds=None, callback=None, error_callback=None):
        return _Ready(self.apply(func, args, kwds))

    def imap_unordered(self, func, iterable, chunksize=1):
        """Results in COMPLETION order.  With P workers taking chunks from one FIFO queue, the chunk finishing k-th
        (0-based) can be any chunk with index < k + P that has not finished yet; the owner picks the order
        (default: the feasible order that is furthest from submission order, so that code relying on the order of
        an unordered map is exposed whenever P >= 2)."""
        per_chunk = self._run_chunks(func, [(x,) for x in iterable], chunksize)
        order = self.owner.completion(self.pool_index, len(per_chunk), self.P)
        if sorted(order) != list(range(len(per_chunk))) or any(c >= k + self.P for k, c in enumerate(order)):
            raise HarnessError('completion order %r is not feasible for %d chunks on %d workers' % (order, len(per_chunk), self.P))
        self.owner.pools[self.pool_index].setdefault('unordered', []).append(len(per_chunk))
        return iter([r for c in order for r in per_chunk[c]])

    def map(self, func, iterable, chunksize=None):
        return self.starmap(func, [(x,) for x in iterable], chunksize)

    def imap(self, func, iterable, chunksize=1):
        return iter(self.starmap(func, [(x,) for x in iterable], chunksize))

    def apply(self, func, args=(), kwds=None):
        if kwds:
            import functools
            func = functools.partial(func, **kwds)
        return self.starmap(func, [tuple(args)], 1)[0]

    def close(self):
        self.closed = True
        self._shutdown()

    def terminate(self):
        self._shutdown()

    def join(self):
        self._shutdown()

    def _shutdown(self):
        if os.getpid() != self.owner_pid:           # a forked copy of the pool object: the workers are not ours
            return
        self.stopped = True
        for w in self.workers:
            w.stop()

    def __enter__(self):
        return self

    def __exit__(self, *a):
        self.terminate()

    def __del__(self):
        try:
            self._shutdown()
        except Exception:
            pass


class ControlledMP:
    """Drop-in for the `mp` global of emd.sift.  `schedule` = list (one entry per pool created, in creation order)
    of worker-index sequences, one entry per chunk dispatched through that pool; missing entries default to worker 0."""

    def __init__(self, schedule=None, completion='latest-first'):
        self.schedule = schedule or []
        self.completion_mode = completion
        self.pools = []
        self.log = []

    def completion(self, pool_index, n, P):
        """Completion order of the n chunks of an unordered map (see ControlledPool.imap_unordered)."""
        if self.completion_mode == 'submission' or P < 2:
            return list(range(n))
        if isinstance(self.completion_mode, (list, tuple)):
            return list(self.completion_mode[:n]) if len(self.completion_mode) >= n else list(range(n))
        # latest-first: always complete the highest-indexed chunk that may be running
        done, order = set(), []
        for k in range(n):
            c = max(i for i in range(min(n, k + P)) if i not in done)
            done.add(c)
            order.append(c)
        return order

    def Pool(self, processes=None, initializer=None, initargs=(), maxtasksperchild=None, context=None):
        pool = ControlledPool(self, processes, initializer, initargs, maxtasksperchild, context)
        self._live = getattr(self, '_live', []) + [pool]
        return pool

    def current_process(self):
        return _current

    def cpu_count(self):
        return os.cpu_count()

    def assignment(self, pool_index, start, n, P):
        row = self.schedule[pool_index] if pool_index < len(self.schedule) else ()
        out = []
        for i in range(start, start + n):
            out.append(row[i] if i < len(row) else 0)
        return out


class SerialPool:
    def __init__(self, processes=None):
        self.P = processes

    def starmap(self, func, iterable, chunksize=None):
        return [func(*args) for args in iterable]

    def map(self, func, iterable, chunksize=None):
        return [func(x) for x in iterable]

    def imap(self, func, iterable, chunksize=1):
        return iter([func(x) for x in iterable])

    imap_unordered = imap          # one worker: completion order is submission order

    def apply(self, func, args=(), kwds=None):
        return func(*args, **(kwds or {}))

    def close(self):
        pass

    terminate = join = close

    def __enter__(self):
        return self

    def __exit__(self, *a):
        pass


class SerialMP:
    """In-process pool: same call surface, no fork. Used where worker placement is irrelevant to the property."""

    def Pool(self, processes=None, initializer=None, initargs=(), maxtasksperchild=None, context=None):
        if initializer is not None:                 # the one in-process "worker" is initialised like a real one
            initializer(*initargs)
        return SerialPool(processes)

    def current_process(self):
        return _Proc((1,))

    def cpu_count(self):
        return os.cpu_count()


def schedules(pools_info):
    """Every canonical schedule for the pools recorded by a discovery run: product over pools of all
    restricted-growth strings (set partitions of that pool's chunks into <= P blocks)."""
    per_pool = []
    for info in pools_info:
        C = sum(info['chunks'])
        per_pool.append(list(enum.restricted_growth_strings(C, info['P'])))
    for combo in itertools.product(*per_pool):
        yield [list(r) for r in combo]


def count_schedules(pools_info):
    n = 1
    for info in pools_info:
        n *= sum(1 for _ in enum.restricted_growth_strings(sum(info['chunks']), info['P']))
    return n


class installed:
    """Context manager: install an mp replacement at emd.sift.mp."""

    def __init__(self, mp_obj):
        self.mp_obj = mp_obj

    def __enter__(self):
        import emd.sift as S
        self.S = S
        self.old = S.mp
        S.mp = self.mp_obj
        return self.mp_obj

    def __exit__(self, *a):
        self.S.mp = self.old
        # a pool the library neither closed nor terminated stays usable (a library that keeps a pool between calls
        # must find it alive at the next call, as with the real multiprocessing); only the oldest such pools are
        # reaped so that calls which raise before closing their pool do not leak workers without bound
        for p in getattr(self.mp_obj, '_live', []):
            if not p.stopped:
                _ORPHANS.append(p)
        while len(_ORPHANS) > MAX_ORPHANS:
            _ORPHANS.pop(0)._shutdown()


def reap_orphans():
    while _ORPHANS:
        _ORPHANS.pop(0)._shutdown()


atexit.register(reap_orphans)
