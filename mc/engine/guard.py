"""Determinism set-up, per-case watchdog, tolerance helpers."""
import os
import signal
import sys
import contextlib


class CaseTimeout(BaseException):
    pass


def _on_alarm(signum, frame):
    raise CaseTimeout()


@contextlib.contextmanager
def watchdog(seconds):
    """Raise CaseTimeout inside the block if it runs longer than `seconds` (nestable)."""
    import time
    old_handler = signal.signal(signal.SIGALRM, _on_alarm)
    t0 = time.time()
    old_left, _ = signal.setitimer(signal.ITIMER_REAL, seconds)
    try:
        yield
    finally:
        signal.setitimer(signal.ITIMER_REAL, 0)
        signal.signal(signal.SIGALRM, old_handler)
        if old_left > 0:
            signal.setitimer(signal.ITIMER_REAL, max(old_left - (time.time() - t0), 0.01))


def setup_env():
    """Called before numpy/emd import."""
    os.environ.setdefault('OMP_NUM_THREADS', '1')
    os.environ.setdefault('OPENBLAS_NUM_THREADS', '1')
    os.environ.setdefault('MKL_NUM_THREADS', '1')
    repo = os.environ.get('EMD_REPO', '/repo')
    if repo not in sys.path:
        sys.path.insert(0, repo)


def import_emd():
    """Import emd from /repo's working tree and assert that is where it came from."""
    import warnings
    warnings.filterwarnings('ignore')
    repo = os.path.realpath(os.environ.get('EMD_REPO', '/repo'))
    import emd
    here = os.path.realpath(os.path.dirname(emd.__file__))
    if os.path.dirname(here) != repo:
        raise HarnessError('emd imported from %s, expected %s' % (here, repo))
    return emd


class HarnessError(Exception):
    pass


def silence_stdout():
    """Point fd 1 of this (child) process at /dev/null."""
    sys.stdout.flush()
    dn = os.open(os.devnull, os.O_WRONLY)
    os.dup2(dn, 1)
    os.close(dn)
