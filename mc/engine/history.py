"""Explorer H: breadth-first exploration of operation histories.

A state is the operation history that reaches it.  `transition(root, history)` builds a FRESH real object (and the
reference model), replays the history on both, checks the last step plus all observations, and returns the canonical
form of the state reached.  The search is level-synchronous: the frontier of one depth is expanded by every operation,
the expansions are executed by forked workers (every worker takes the items whose index is congruent to its number),
and the parent merges canonical keys to build the next frontier.  With `dedup=True` a history whose canonical state
was already seen is not expanded further (sound when the canonical form contains every field the implementation
reads - argued per property); with `dedup=False` every history up to the depth bound is expanded.
"""
import os
import pickle
import sys
import tempfile
import traceback

from . import guard
from .explore import Report, NCPU, OUT


class Step:
    """Result of one transition."""
    __slots__ = ('key', 'viols', 'transitions', 'nontrivial', 'cls')

    def __init__(self, key, viols=None, transitions=1, nontrivial=True, cls='ok'):
        self.key = key
        self.viols = viols or []
        self.transitions = transitions
        self.nontrivial = nontrivial
        self.cls = cls


def _expand_level(items, transition, timeout_s, nworkers, init):
    os.makedirs(os.path.join(OUT, 'tmp'), exist_ok=True)
    tmpdir = tempfile.mkdtemp(dir=os.path.join(OUT, 'tmp'))
    pids = []
    sys.stdout.flush()
    sys.stderr.flush()
    for w in range(nworkers):
        path = os.path.join(tmpdir, 'w%d.pkl' % w)
        pid = os.fork()
        if pid == 0:
            code = 0
            try:
                guard.silence_stdout()
                if init is not None:
                    init()
                out = []
                errors = []
                for i in range(w, len(items), nworkers):
                    root, hist = items[i]
                    try:
                        with guard.watchdog(timeout_s):
                            st = transition(root, hist)
                    except guard.CaseTimeout:
                        st = Step(None, [('timeout', 'history %r exceeded %ss' % (hist, timeout_s))], cls='timeout')
                    except Exception:
                        errors.append(traceback.format_exc())
                        st = Step(None, cls='harness')
                    out.append((i, st.key, st.viols, st.transitions, st.nontrivial, st.cls))
                with open(path, 'wb') as f:
                    pickle.dump((out, errors), f)
            except BaseException:
                code = 3
            finally:
                os._exit(code)
        pids.append((pid, path, w))
    results = []
    errors = []
    for pid, path, w in pids:
        _, status = os.waitpid(pid, 0)
        if status != 0 or not os.path.exists(path):
            errors.append('history worker %d died with status %r' % (w, status))
            continue
        with open(path, 'rb') as f:
            out, errs = pickle.load(f)
        results.extend(out)
        errors.extend(errs)
        os.unlink(path)
    try:
        os.rmdir(tmpdir)
    except OSError:
        pass
    results.sort()
    return results, errors


def bfs(roots, ops, transition, max_depth, dedup=True, timeout_s=20.0, nworkers=None, init=None, serial=False,
        ops_for=None):
    """-> Report with states (distinct canonical states), transitions, classes, viols; extra['max_depth'] etc."""
    nworkers = 1 if serial else (nworkers or NCPU)
    rep = Report()
    seen = set()
    frontier = [(r, ()) for r in roots]
    for r in roots:
        seen.add((r, 'ROOT'))
    index_base = 0
    depth_done = 0
    per_depth = []
    for depth in range(1, max_depth + 1):
        items = []
        for root, hist in frontier:
            for op in (ops_for(root, hist) if ops_for else ops):
                items.append((root, hist + (op,)))
        if not items:
            break
        results, errors = _expand_level(items, transition, timeout_s, nworkers, init)
        rep.errors.extend(errors)
        nxt = []
        newstates = 0
        for i, key, viols, ntrans, nontriv, cls in results:
            root, hist = items[i]
            rep.evaluations += 1
            rep.transitions += ntrans
            rep.validated += 1
            rep.classes[cls] += 1
            if nontriv:
                rep.nontrivial += 1
            for kind, msg in viols:
                if kind not in rep.viols:
                    rep.viols[kind] = [1, index_base + i, (root, list(hist)), msg]
                else:
                    rep.viols[kind][0] += 1
            if len(rep.samples) < 4 and i % 997 == 1:
                rep.samples.append({'root': root, 'history': [repr(o) for o in hist], 'outcome': cls})
            if key is None:
                continue
            k = (root, key)
            if dedup:
                if k in seen:
                    continue
                seen.add(k)
                newstates += 1
                nxt.append((root, hist))
            else:
                seen.add(k)
                nxt.append((root, hist))
        index_base += len(items)
        per_depth.append({'depth': depth, 'histories': len(items), 'new_states': newstates if dedup else len(nxt)})
        depth_done = depth
        frontier = nxt
        if not frontier:
            break
    if not rep.samples and rep.evaluations:
        rep.samples.append({'note': 'see per_depth'})
    rep.extra['max_depth'] = depth_done
    rep.extra['distinct_states'] = len(seen)
    rep.extra['per_depth'] = per_depth
    rep.extra['fixpoint'] = (len(frontier) == 0)
    return rep
