"""Evidence writer, replay-file writer, known-findings matcher."""
import hashlib
import json
import os

ROOT = os.path.dirname(os.path.dirname(os.path.dirname(os.path.abspath(__file__))))
EVID = os.path.join(ROOT, 'evidence')
REPLAYS = os.path.join(ROOT, 'out', 'replays')
KNOWN = os.path.join(ROOT, 'known_findings.json')


def _jsonable(x):
    import numpy as np
    if isinstance(x, dict):
        return {str(k): _jsonable(v) for k, v in x.items()}
    if isinstance(x, (list, tuple)):
        return [_jsonable(v) for v in x]
    if isinstance(x, np.ndarray):
        return _jsonable(x.tolist())
    if isinstance(x, (np.integer,)):
        return int(x)
    if isinstance(x, (np.floating,)):
        return float(x)
    if isinstance(x, (np.bool_,)):
        return bool(x)
    if isinstance(x, float):
        if x != x:
            return 'nan'
        if x in (float('inf'), float('-inf')):
            return 'inf' if x > 0 else '-inf'
        return x
    if isinstance(x, (int, str, bool)) or x is None:
        return x
    return repr(x)


def load_known():
    if not os.path.exists(KNOWN):
        return []
    with open(KNOWN) as f:
        return json.load(f).get('findings', [])


def known_status(pid, signature):
    """Return the entry if `signature` is a listed *known* (unrepaired) finding of `pid`."""
    for e in load_known():
        if e.get('property') == pid and e.get('status') == 'known' and e.get('signature') == signature:
            return e
    return None


def write_replay(pid, kind, case, message, snippet=None):
    os.makedirs(REPLAYS, exist_ok=True)
    body = {'property': pid, 'kind': kind, 'case': _jsonable(case), 'message': message}
    if snippet:
        body['snippet'] = snippet
    h = hashlib.sha1(json.dumps([pid, kind, body['case']], sort_keys=True).encode()).hexdigest()[:12]
    path = os.path.join(REPLAYS, '%s-%s.json' % (pid, h))
    with open(path, 'w') as f:
        json.dump(body, f, indent=1)
    return path


def write_evidence(pid, tier, seed, coverage, assumptions, wall_s, violations):
    os.makedirs(EVID, exist_ok=True)
    body = {
        'property_id': pid,
        'tier': tier,
        'seed': int(seed),
        'level': 'model_checking',
        'coverage': _jsonable(coverage),
        'assumptions': list(assumptions),
        'wall_s': round(float(wall_s), 3),
        'violations': int(violations),
    }
    path = os.path.join(EVID, '%s.json' % pid)
    tmp = path + '.tmp'
    with open(tmp, 'w') as f:
        json.dump(body, f, indent=1)
    os.replace(tmp, path)
    return path
