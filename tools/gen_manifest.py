#!/usr/bin/env python3
"""Regenerate /verif/MANIFEST.json from the table below and validate it against the schema."""
import json
import os
import sys

ROOT = os.path.dirname(os.path.dirname(os.path.abspath(__file__)))

# id -> (engine, technique, level text, level note, design ref)
CHECKS = {
    'C12': ('I', 'bounded-exhaustive input enumeration vs. reference partition',
            'Every phase sequence up to length 6 (quick) / 8 (thorough) over a 5-value alphabet, for three phase_step '
            'values and three input layouts, plus a fixed grid of long synthetic phases, is run through the real '
            'get_cycle_vector (both return_good settings) and compared with the wrap partition recomputed from the '
            'statement. Complete for the stated bound, nothing beyond it.',
            'Trusts the 20-line reference partition in mc/props/c12.py; phase alphabets avoid |diff| == phase_step.',
            'DESIGN.md section 3 / C12'),
}

NOT_YET = 'check not built yet in this round (planned, see DESIGN.md section 3)'

ENGINES = [
    {'name': 'I', 'path': 'mc/engine/explore.py', 'kind_free_text':
     'bounded-exhaustive enumeration of inputs/configurations on the real code, sharded over forked workers'},
    {'name': 'H', 'path': 'mc/engine/history.py', 'kind_free_text':
     'breadth-first exploration of operation histories on fresh real objects/processes vs. a reference model'},
    {'name': 'S', 'path': 'mc/engine/forkpool.py', 'kind_free_text':
     'controlled fork pool installed at emd.sift.mp; enumerates every chunk-to-worker assignment'},
]


def main():
    props = [json.loads(l) for l in open(os.path.join(ROOT, 'properties.jsonl'))]
    ids = [p['id'] for p in props]
    checks = []
    for pid in ids:
        if pid not in CHECKS:
            continue
        eng, tech, text, note, ref = CHECKS[pid]
        checks.append({
            'property_id': pid,
            'quick_cmd': 'bin/check %s --tier quick' % pid,
            'thorough_cmd': 'bin/check %s --tier thorough' % pid,
            'evidence_file': 'evidence/%s.json' % pid,
            'replay_cmd_template': 'bin/check %s --replay {path}' % pid,
            'engine': eng,
            'level_claimed': {'category': 'model_checking', 'text': text, 'design_ref': ref},
            'level_note': note,
            'technique': tech,
        })
    for e in ENGINES:
        e['serves_properties'] = [pid for pid in ids if pid in CHECKS and CHECKS[pid][0] == e['name']]
    man = {
        'version': 1,
        'setup_cmd': 'python3-vt tools/setup.py',
        'hooks': {
            'guard': 'EMD_VERIF',
            'enable': 'none needed: emd is pure Python and is imported from /repo\'s working tree by a fresh interpreter; '
                      'all interposition is done at run time on module globals (no source hooks)',
            'baseline_off_cmd': 'tools/baseline.sh',
            'source_commits': [],
            'add_only': True,
        },
        'engines': ENGINES,
        'checks': checks,
        'not_applicable': [{'property_id': pid, 'reason': NOT_YET} for pid in ids if pid not in CHECKS],
        'notes': 'All checks are bounded-exhaustive explorations of the real implementation (see DESIGN.md). '
                 'fix: commits in /repo and their witnesses are listed in known_findings.json.',
    }
    path = os.path.join(ROOT, 'MANIFEST.json')
    with open(path, 'w') as f:
        json.dump(man, f, indent=1)
    try:
        import jsonschema
        jsonschema.validate(man, json.load(open('/root/.vp/MANIFEST.schema.json')))
        print('MANIFEST.json valid: %d checks, %d not_applicable' % (len(checks), len(man['not_applicable'])))
    except ImportError:
        print('jsonschema unavailable; wrote MANIFEST.json unvalidated')


if __name__ == '__main__':
    sys.exit(main())
