#!/usr/bin/env python3
"""Regenerate /verif/MANIFEST.json from the table below and validate it against the schema."""
import json
import os
import sys

ROOT = os.path.dirname(os.path.dirname(os.path.abspath(__file__)))

# id -> (engine, technique, level text, level note, design ref)
CHECKS = {
    'C12': ('I', 'bounded-exhaustive input enumeration vs. reference partition',
            'Every phase sequence up to length 6 (quick) / 8 (thorough) over a 5-value alphabet (plus integer-typed and read-only copies, '
            'and synthetic phases with up to 33 000 / 70 000 cycles), for three phase_step '
            'values and three input layouts, plus a fixed grid of long synthetic phases, is run through the real '
            'get_cycle_vector (both return_good settings) and compared with the wrap partition recomputed from the '
            'statement. Complete for the stated bound, nothing beyond it.',
            'Trusts the 20-line reference partition in mc/props/c12.py; phase alphabets avoid |diff| == phase_step.',
            'DESIGN.md section 3 / C12'),
    'C10': ('I', 'bounded-exhaustive input enumeration vs. per-sample brute-force histogram',
            'Every frequency matrix [T x M] with T*M <= 4 over an edge-hitting alphabet (negative, below range, every edge, '
            'nextafter-below every edge, midpoints, above range) for linear and log bin sets with 1..3 (quick) / 1..4 '
            '(thorough) bins, two amplitude presets, both modes, dense + sparse + 1-D marginal, against a triple-loop '
            'histogram; exact equality (power-of-two amplitudes). Also define_hist_bins(_from_data) on a grid.',
            'Trusts the brute-force histogram in mc/props/c10.py; NaN frequencies are not in the alphabet.',
            'DESIGN.md section 3 / C10'),
    'C11': ('I', 'bounded-exhaustive input enumeration vs. triple-loop brute-force holospectrum',
            'Every (infr, infr2) pair over edge-hitting alphabets for carrier bin sets 1..3 and AM bin sets 1..2 and a list '
            'of small shapes (full alphabet for <= 2 or 3 second-level cells, 5-value reduced alphabet for 4-cell shapes), '
            'both modes, all three squash_time settings, exact comparison with a brute-force loop.',
            'Trusts the brute-force loop; shapes bounded by 4 second-level cells.',
            'DESIGN.md section 3 / C11'),
    'C13': ('I', 'bounded-exhaustive input enumeration vs. criteria evaluated on the wrap partition',
            'Every phase sequence up to length 5 (quick) / 7 (thorough) over a 6-value alphabet straddling the three edge '
            'tolerances x every boolean mask (or every block mask) x both return_good settings, is_good on every segment, '
            'and the Cycles container flag with cache on and off.',
            'Segments come from the implementation\'s own all-cycles partition (guarded by C12); alphabets avoid tolerance ties.',
            'DESIGN.md section 3 / C13'),
    'C14': ('I', 'bounded-exhaustive input enumeration vs. direct per-label computation',
            'Every label vector up to length 9/12 x 7 reducing functions (one records the exact samples it was handed) x '
            'output modes; every ordered triple of cycle lengths x 4 quantities x 5 npoints x 4 interpolation kinds for '
            'phase_align (exact for affine quantities, derived error bound for linear interpolation); every phase '
            'sequence over bin edges/midpoints for bin_by_phase.',
            'Interpolation-error bound M*h^2/2 is derived, not calibrated; weights/variance outputs of bin_by_phase are not judged.',
            'DESIGN.md section 3 / C14'),
    'C16': ('I', 'bounded-exhaustive structure enumeration vs. set-theoretic definitions',
            'Every boolean selection vector of length 1..12 and every (selection, cycle lengths, gap placement) structure up '
            'to 4 (quick) / 6 (thorough) cycles; all 12 map_* and 6 project_* functions plus subset/chain vector '
            'construction compared with definitions, including round trips and none-markers.',
            'Accepts None or a negative index as the none marker.',
            'DESIGN.md section 3 / C16'),
    'C17': ('I', 'bounded-exhaustive input enumeration, invariant oracle',
            'Every pair of one-feature arrays with <= 3 (quick) / 4 (thorough) rows over a 5-value alphabet and every pair of '
            'two-feature arrays with <= 3 rows over {0,1}^2, x K in {1,2,3,4,15} x 3 distance bounds, plus 72 larger '
            'permuted instances; checks lengths, ranges, injectivity on both sides, K-NN membership, bound, no exception.',
            'Invariants only - does not require a maximal matching.',
            'DESIGN.md section 3 / C17'),
    'C01': ('I', 'bounded-exhaustive input x configuration enumeration, statement oracle',
            'Every 4-level sequence of length 3..6 (quick) / 3..7 plus 3-level 8..9 (thorough) and the structured grid F_B, '
            'each against the 288-point option grid (quick: every 3rd/6th/16th configuration per signal with a rotating '
            'offset; thorough: the full grid), run through emd.sift.sift; reconstruction and non-oscillatory-residual '
            'oracle taken from the statement; seams classify each extraction as stop / vanish-mid-extraction / final so '
            'that every exit path is shown to be populated.',
            'Runs ended by the sift threshold are exempt as the statement says; EMDSiftCovergeError is counted, not judged.',
            'DESIGN.md section 3 / C01'),
    'C02': ('I', 'bounded-exhaustive input x configuration x transform enumeration, metamorphic oracle',
            'Non-final F_A signals and F_B x 24 option sets x 13 exact (dyadic, -1) and 4 inexact scale factors and time '
            'reversal, for get_next_imf and sift; mask_sift under positive rescaling (abs mode as negative control). '
            'Bit equality for exact factors, 1e-9 otherwise outside a guard band measured at seams.',
            'sift_thresh (absolute, signal units) is rescaled with the signal; guard-band exclusions are counted in the evidence.',
            'DESIGN.md section 3 / C02'),
    'C03': ('I', 'bounded-exhaustive input x cap enumeration, prefix + peeling + shape oracles',
            'For every non-final F_A signal and F_B signal x option sets: all caps 1..ncols+2 of sift and mask_sift compared '
            'bit-for-bit with the uncapped prefix, every column re-derived by (masked) single-IMF extraction from the '
            'externally computed residual; ensemble / complete-ensemble / second-layer variants over caps {1..6, None} x '
            'ensemble sizes x noise levels x modes for shape, cap and finiteness.',
            'Pools replaced by an in-process serial pool here (worker placement is C07/C08); RNG seeded per call.',
            'DESIGN.md section 3 / C03'),
    'C04': ('I', 'bounded-exhaustive input x configuration enumeration vs. reference iterate sequence',
            'F_A (length 3..6 / 3..7), F_B and the residuals left after a first extraction (non-initial states) x stop rules '
            'x thresholds x step sizes x iteration limits x envelope configurations; every get_next_imf call is compared '
            'with a reference iterate sequence (value, number of envelope evaluations, continue flag, convergence error, '
            'energy threshold). Amplitude-scaled copies (x 1e-9, x 1e7) are included and all tolerances are relative.',
            'Reference envelope stage = the repository\'s own interp_envelope (C05 judges it); boundary iterate max_iters+1 may return or raise.',
            'DESIGN.md section 3 / C04'),
    'C05': ('I', 'bounded-exhaustive input x configuration enumeration vs. independent reference',
            'Every 3-level sequence of length 1..8 (quick) / 1..10 (thorough) and F_B x pad widths 0..5 x parabolic on/off x 3 '
            'interpolants x 3 envelope modes: extrema against an own strict-extremum finder and an own implementation of '
            'the mirror-padding rule, envelopes against the scipy interpolant rebuilt from the reference extrema and '
            'evaluated at 0..N-1.',
            'Exact padding reference when pad_width < #extrema, structural invariants when it is clipped.',
            'DESIGN.md section 3 / C05'),
    'C06': ('I+S', 'bounded-exhaustive configuration enumeration + exhaustive schedule exploration; call-tree and output oracles',
            'Six variants x 19 option sets (one-at-a-time and combined deviations) x three delivery routes x signals with the '
            'serial pool, and every chunk->worker assignment (P=2) for the pooled variants under the controlled fork pool. '
            'Oracle 1: seams record the effective arguments of every get_next_imf / interp_envelope / get_padded_extrema '
            'call in the parent and in every worker; oracle 2: output equals a pipeline assembled from the stage functions '
            '(fresh option copies per stage call); oracle 3: the delivery route (incl. nested-indexing edits of the config) '
            'does not change the result; oracle 4: option dictionaries are unchanged and defaults stay the defaults afterwards.',
            'Seams interpose on emd.sift module globals at run time; oracle 2 does not depend on them.',
            'DESIGN.md section 3 / C06'),
    'C07': ('I+S', 'executable specification + exhaustive chunk-to-worker schedule exploration',
            'mask_sift against an executable specification of the masking rule over a 2592-point configuration grid '
            '(rotating sub-grids per signal), get_next_imf_mask over frequency x amplitude x nphases, and every schedule of '
            'nphases x nprocesses (quick <= 5 x 3, thorough <= 8 x 8, plus two-pool products) under the controlled fork '
            'pool: every schedule must reproduce the single-process result bit-for-bit with the same multiset of task inputs. '
            'The specification is compared layer by layer (zero-amplitude layers and four option sets included); argument '
            'arrays must be unchanged and a repeated call identical.',
            'Specification uses emd.sift.get_next_imf as stage function; CPython chunking rule assumed and checked against the real pool.',
            'DESIGN.md section 3 / C07'),
    'C08': ('S', 'exhaustive chunk-to-worker schedule exploration on the real code, real-pool conformance',
            'ensemble_sift and complete_ensemble_sift under a controlled fork pool installed at emd.sift.mp: every canonical '
            'assignment of task chunks to workers for E x P (quick E<=6, P<=4; thorough 8 x 8), both noise modes, three noise '
            'levels; the array actually handed to each member sift is traced in the worker, members must be pairwise '
            'different and the output must be the per-IMF mean recomputed in the parent. Stock multiprocessing.Pool runs are '
            'validated as members of the enumerated space with equal observations. An uncapped family sweeps noise draws so '
            'that members with unequal +/- IMF counts occur.',
            'Models chunk placement only (the only freedom of Pool.starmap); not worker death or spawn start method.',
            'DESIGN.md section 2.4, 3 / C08'),
    'C09': ('I', 'bounded-exhaustive grid enumeration (structural, accuracy, round trip)',
            'Structural laws (shape, phase range, IF = derivative of phase, scale laws, amplitude normalisation) over methods x '
            'multi-column signals x sample rates x scales; recovery of pure sinusoids over a cycles x amplitude x phase x '
            'sample-rate grid (1e-9 for integer cycle counts with hilbert); exact phase<->frequency round trip for every '
            '3-level profile up to length 7/9; scale factors 2^-40..2^40, [N x M x K] input, smooth_phase None / 3.',
            'The accuracy clause is over a continuum: decided on the grid only; tolerances documented in the evidence assumptions.',
            'DESIGN.md section 3 / C09'),
    'C15': ('H', 'explicit-state BFS over operation histories on real objects vs. reference model',
            'Seven containers (one with zero cycles), each built with the slice cache on and off and driven in lock-step, explored '
            'breadth-first over 26 state-changing operations with canonical-state deduplication (full alphabet to depth 3/4, a 12-operation '
            'sub-alphabet to depth 4/7; a container with cycles of thousands of samples to depth 2); after every transition all stored metrics, subset / chain vectors, 10 '
            'get_matching_cycles queries and three table exports are compared with a dict-of-lists model and between cache modes.',
            'Subset selections only when their metrics exist; augmented-mode values judged where both readings of the rule coincide.',
            'DESIGN.md section 3 / C15'),
    'C18': ('H+I', 'explicit-state BFS over edit histories vs. native nested indexing; YAML round trips per state',
            'Defaults of four variants through three routes; BFS over set / del / nested-index histories on 12 key paths x 9 values '
            '(147 operations; full alphabet depth 2, one variant depth 3 in the thorough tier; 64-operation alphabet depth 3) from the default configs: mapping interface and every key path '
            'compared with a plain nested dict, both YAML routes round-tripped on every state, reloaded callable compared '
            'with the direct call for valid-valued states.',
            'Tuples/arrays compared as lists, as the property allows.',
            'DESIGN.md section 3 / C18'),
    'C19': ('I', 'exhaustive enumeration of entry points x layouts x mutability',
            '24 entry points x accepted layouts (writable and read-only, each called twice) x rejected layouts x length '
            'mismatches x signals: equal results across layouts, rejection within a watchdog, byte-identical inputs, '
            'deep-equal option dictionaries, repeatability.',
            'Accepted/rejected layout sets as listed in the property text.',
            'DESIGN.md section 3 / C19'),
    'C20': ('H', 'exhaustive process-tree exploration of operation histories vs. reference model',
            'Every sequence of up to 3 (quick) / 4 (thorough) operations over a 20-operation alphabet (set_up variants incl. a '
            'log file, set_level, disable, enable, returning and raising sift-variant calls with every verbosity) from both the '
            'never-set-up and the set-up root; every node is a freshly forked process inheriting genuine logging state; console '
            'level, disabled flag, results and exception classes compared with the model after every operation.',
            'Pools replaced by the serial pool; no state merging.',
            'DESIGN.md section 3 / C20'),
}

# extensions made in answer to the later waves of seeded changes (DESIGN.md 8.3, waves 4-6)
ADDENDA = {
    'C01': 'Also: for every extraction k of a decomposition an error is injected at / right after extraction k (every abort point) and the '
           'next sift is judged and compared with the undisturbed run; amplitude copies x 1e-13 / x 1e9 with rescaled or zero threshold. Alternative call forms (positional threshold / cap, **config, get_func, column input), bounded iteration budgets, byte-swapped and 32-bit integer input.',
    'C02': 'Also: parabolic-extrema configurations; fixed counts of 130 / 400 iterations on an offset tone. Positional sift form; mask amplitude mode omitted.',
    'C03': 'Also: masked sift of a 1536 / 3000-sample record right after a same-length record sharing its head / tail / both ends; '
           'signals on a 1e7 offset. The cap through three configuration routes; a non-monotone user mask list whose returned frequencies must be the given ones.',
    'C04': 'Also: fixed counts of 64..400 iterations on an offset tone of both signs; results handed out by earlier calls must stay unchanged. Rilling thresholds above 1 and as tuple / list / array; the all-defaults call against the documented defaults.',
    'C05': 'Also: inputs handed over in caller-owned buffers refilled in place (two consecutive calls on one object), earlier results unchanged. Strided views of the input.',
    'C06': 'A fifth delivery route drives a configuration with a past (callable built once, groups written back as equal copies, then edited). Option sets that give an option without its companions.',
    'C07': 'Also: every sequence of in-place edits (8-edit alphabet, depth 2/3) of one caller-owned set of option dictionaries with a masked '
           'sift after each, serial and on 2 workers; schedules with several jobs per chunk on more than one worker ((9,2) ... (17,4)). A non-monotone user mask list; get_mask_freqs called directly.',
    'C08': 'Also: the complete-ensemble result and noise matrix against the one-process run for every schedule; unordered maps are given '
           'an explicit out-of-order feasible completion order; one ensemble of 1500 (thorough: 3000) members. Non-default extrema options; data scaled to 1e-12.',
    'C09': 'Also: IMFs of sifted noise (256-5000 samples); inputs in caller-owned buffers refilled in place. The public phase routine and amplitude_normalise called directly (wrapped = wrap(unwrapped); one pass = x / combined envelope of the selected interpolant).',
    'C10': 'Also: Fortran-ordered inputs; results of earlier calls (sparse data buffers included) must stay unchanged. Calls with `mode` omitted; a bin set that starts below zero. User-supplied irregular edges: every strictly increasing edge set of 3..7 (thorough 3..9) edges from the grid 0..10, samples on / just below / between all grid values, three layouts.',
    'C11': 'Also: 300 x 300, 120 x 600 and 20 x 15 bin grids; results of earlier calls must stay unchanged. Defaults omitted, options by position, an exhaustive small family with NaN / inf frequencies over bins that contain 0.',
    'C12': 'Also: recordings beyond 2^17 samples with wraps exactly on powers of two; phases handed over in a caller-owned buffer '
           'refilled in place (two consecutive calls on one object). The deprecated alias, the positional form, an all-True mask vector, a wrap-free column placed first. At the larger scope every recording is followed by a wrap-free series of the same shape and by two-column inputs whose wrap-free column changes place (8 more calls per instance).',
    'C13': 'Also: 5000-sample cycles with one plateau / reversal exactly on a 2^k sample index; tolerances less than 1e-6 apart used one after the other. The alias with masks; the phase as second column of a two-column array. Cycles whose first steps are one ulp / denormal / 1e-17 increases or exact repeats (512 triples).',
    'C14': 'Also: alignment of cycles with one internal phase step of 3.3-4.2 rad; label / value arrays in caller-owned buffers refilled in place; '
           'results of earlier calls unchanged. Values with trailing dimensions in bin_by_phase; pre-built iterators (either mode) in place of the container.',
    'C15': 'Alphabet now 30 operations (conditions on chain-level metrics, stored chain metrics re-added under another name); the '
           'observation queries are issued after every step of a history. The container\'s three iterators and the per-condition columns (ret_separate) observed after every transition; a root built with the constructor\'s mode keyword.',
    'C16': 'Also: cycle vectors in a caller-owned buffer refilled in place; +inf / -inf among the projected values. [n x 1] cycle vectors; the IterateCycles class over cycles / subset / chains; primed buffers. Medium scope: 130..1030 (thorough ..4100) cycles x 7 periodic selections, all six projections against a vectorised reference.',
    'C17': 'Also: the 1-feature family on a 0.1-grid with bounds 1.0 / 0.1 (distances one rounding step from the bound) and on a 1.7e9 offset. Positional and column call forms. The bound 0 (every row omitted) in every small case.',
    'C18': 'Also: the configuration is used (unpacked and through get_func) in every state of every history and must be unchanged by use; '
           'a second root starts from array-valued mask options; groups written back as equal copies are distinct histories. update() with key paths; a tuple nested in a tuple among the values.',
    'C19': 'Also: every history of 3 read-only queries (12-query alphabet) on one cycle container, each answer against a fresh container. Iterator routes with route equivalence; length mismatches with container / iterator forms; [n x 1 x 1] input to the transforms; thorough: query histories of depth 4.',
    'C20': 'Alphabet now 26 operations (console levels ERROR and NOTSET included); 12-member ensembles on 3 controlled workers with '
           'out-of-order completion in 7 logger states against the never-set-up serial run. 28 operations (second-layer sifts with the verbosity in sift_args); the console handler level is also read directly through logging.',
}

NOT_YET = 'check not built yet in this round (planned, see DESIGN.md section 3)'

ENGINES = [
    {'name': 'I', 'path': 'mc/engine/explore.py', 'kind_free_text':
     'bounded-exhaustive enumeration of inputs/configurations on the real code, sharded over forked workers'},
    {'name': 'H', 'path': 'mc/engine/history.py', 'kind_free_text':
     'breadth-first exploration of operation histories on fresh real objects/processes vs. a reference model'},
    {'name': 'S', 'path': 'mc/engine/forkpool.py', 'kind_free_text':
     'controlled fork pool installed at emd.sift.mp; enumerates every chunk-to-worker assignment'},
    {'name': 'I+S', 'path': 'mc/engine/explore.py + mc/engine/forkpool.py', 'kind_free_text': 'explorer I cases that each execute one schedule of explorer S'},
    {'name': 'H+I', 'path': 'mc/engine/history.py + mc/engine/explore.py', 'kind_free_text': 'history BFS plus a small input grid'},
]


def main():
    props = [json.loads(l) for l in open(os.path.join(ROOT, 'properties.jsonl'))]
    ids = [p['id'] for p in props]
    checks = []
    for pid in ids:
        if pid not in CHECKS:
            continue
        eng, tech, text, note, ref = CHECKS[pid]
        if pid in ADDENDA:
            text = text + ' ' + ADDENDA[pid]
        checks.append({
            'property_id': pid,
            'quick_cmd': 'bin/check %s --tier quick' % pid,
            'thorough_cmd': 'bin/check %s --tier thorough' % pid,
            'evidence_file': 'evidence/%s.json' % pid,
            'replay_cmd_template': 'bin/check %s --replay {path}' % pid,
            'engine': eng,
            'level_claimed': {'category': 'model_checking', 'text': text, 'design_ref': ref},
            'level_note': note,
            'technique': tech,
        })
    for e in ENGINES:
        e['serves_properties'] = [pid for pid in ids if pid in CHECKS and CHECKS[pid][0] == e['name']]
    man = {
        'version': 1,
        'setup_cmd': 'python3-vt tools/setup.py',
        'hooks': {
            'guard': 'EMD_VERIF',
            'enable': 'none needed: emd is pure Python and is imported from /repo\'s working tree by a fresh interpreter; '
                      'all interposition is done at run time on module globals (no source hooks)',
            'baseline_off_cmd': 'tools/baseline.sh',
            'source_commits': [],
            'add_only': True,
        },
        'engines': ENGINES,
        'checks': checks,
        'not_applicable': [{'property_id': pid, 'reason': NOT_YET} for pid in ids if pid not in CHECKS],
        'notes': 'All checks are bounded-exhaustive explorations of the real implementation (see DESIGN.md). '
                 'fix: commits in /repo and their witnesses are listed in known_findings.json.',
    }
    path = os.path.join(ROOT, 'MANIFEST.json')
    with open(path, 'w') as f:
        json.dump(man, f, indent=1)
    try:
        import jsonschema
        jsonschema.validate(man, json.load(open('/root/.vp/MANIFEST.schema.json')))
        print('MANIFEST.json valid: %d checks, %d not_applicable' % (len(checks), len(man['not_applicable'])))
    except ImportError:
        print('jsonschema unavailable; wrote MANIFEST.json unvalidated')


if __name__ == '__main__':
    sys.exit(main())
