#!/bin/bash
# Run the repository's pinned test-suite (guard variable unset) and compare with BASELINE.json's stable_pass list.
# usage: tools/baseline.sh [repo_dir]
repo="${1:-/repo}"
unset EMD_VERIF
out=$(mktemp /var/tmp/emdv-junit-XXXXXX.xml)
( cd "$repo" && PYTHONDONTWRITEBYTECODE=1 /venv/bin/python -m pytest -q -p no:cacheprovider --timeout=900 --continue-on-collection-errors --junitxml="$out" >/dev/null 2>&1 )
/venv/bin/python - "$out" <<'PY'
import json, sys, xml.etree.ElementTree as ET
base = json.load(open('/root/.vp/BASELINE.json'))
want = set(base['stable_pass'])
passed = set()
for tc in ET.parse(sys.argv[1]).getroot().iter('testcase'):
    name = '%s::%s' % (tc.get('classname'), tc.get('name'))
    if not any(ch.tag in ('failure', 'error', 'skipped') for ch in tc):
        passed.add(name)
missing = sorted(want - passed)
print('baseline: %d/%d stable tests pass; extra passing: %d' % (len(want & passed), len(want), len(passed - want)))
for m in missing:
    print('  NOT PASSING:', m)
sys.exit(1 if missing else 0)
PY
rc=$?
rm -f "$out"
exit $rc
