#!/usr/bin/env python3
"""Confirm a seeded property-breaking change and measure which checks catch it.

usage: tools/seed_eval.py <src_dir> <seed_id> <property> [--checks C01,C02] [--tier quick] [--needs "..."] [--keep-anyway]

<src_dir> holds patch.diff, demo.py and optionally notes.md (as written by a sub-agent in its own worktree).
Steps (nothing is ever committed to /repo):
  1. scratch worktree under /var/tmp: demo on the clean tree must exit 0
  2. git apply patch.diff there: the 33 pinned tests must still pass, demo must now exit non-zero
  3. scratch worktree removed
  4. patch applied to /repo's working tree, the listed checks are run, /repo restored with `git checkout -- .`
  5. /verif/seeded/<seed_id>/{patch.diff, demo.py, notes.md, meta.json} written (only if 1-2 hold)
"""
import argparse
import json
import os
import shutil
import subprocess
import sys
import time

ROOT = os.path.dirname(os.path.dirname(os.path.abspath(__file__)))


def sh(cmd, cwd=None, timeout=3600):
    p = subprocess.run(cmd, shell=True, cwd=cwd, capture_output=True, text=True, timeout=timeout)
    return p.returncode, (p.stdout + p.stderr)


def main():
    ap = argparse.ArgumentParser()
    ap.add_argument('src')
    ap.add_argument('seed_id')
    ap.add_argument('prop')
    ap.add_argument('--checks')
    ap.add_argument('--tier', default='quick')
    ap.add_argument('--needs', default='')
    ap.add_argument('--keep-anyway', action='store_true')
    ap.add_argument('--recheck', action='store_true', help='seed already confirmed: only apply the patch and run the checks; meta.json gets a recheck entry')
    a = ap.parse_args()
    patch = os.path.abspath(os.path.join(a.src, 'patch.diff'))
    demo = os.path.abspath(os.path.join(a.src, 'demo.py'))
    checks = (a.checks or a.prop).split(',')
    meta = {'seed_id': a.seed_id, 'property': a.prop, 'needs_to_manifest': a.needs, 'ran': [], 'at': time.strftime('%Y-%m-%d %H:%M:%S')}
    scratch = '/var/tmp/emdv-seed-%s' % a.seed_id
    sh('git -C /repo worktree remove --force %s' % scratch)
    rc, out = sh('git -C /repo worktree add --detach %s HEAD' % scratch)
    if rc:
        print(out)
        return 2
    ok = True
    if a.recheck:
        rc, out = sh('git apply %s' % patch, cwd=scratch)
        res = {}
        if rc:
            res = {'error': 'patch does not apply on the current HEAD of /repo: %s' % out.strip()[:200]}
        else:
            for c in checks:
                t0 = time.time()
                rc, out = sh('EMD_REPO=%s %s/bin/check %s --tier %s' % (scratch, ROOT, c, a.tier), cwd=ROOT, timeout=7200)
                lines = [l for l in out.splitlines() if l.startswith(('VIOLATION', 'HARNESS-ERROR', 'OK', '  %s:' % c))]
                res[c] = {'exit': rc, 'wall_s': round(time.time() - t0, 1), 'summary': [l[:240] for l in lines[:2]]}
        sh('git -C /repo worktree remove --force %s' % scratch)
        shutil.rmtree(scratch, ignore_errors=True)
        mp = os.path.join(ROOT, 'seeded', a.seed_id, 'meta.json')
        m = json.load(open(mp))
        m['recheck'] = {'at': time.strftime('%Y-%m-%d %H:%M:%S'), 'verif_commit': sh('git -C %s rev-parse --short HEAD' % ROOT)[1].strip(),
                        'repo_commit': sh('git -C /repo rev-parse --short HEAD')[1].strip(), 'checks': res}
        with open(mp, 'w') as f:
            json.dump(m, f, indent=1)
        caught = [c for c, d in res.items() if isinstance(d, dict) and d.get('exit') == 1]
        print('RECHECK %s caught_by=%s %s' % (a.seed_id, caught, '' if caught else json.dumps(res)[:300]))
        sh('git -C %s checkout -- evidence' % ROOT)
        return 0 if caught else 1
    try:
        os.makedirs(os.path.join(scratch, '_mut', 'S'), exist_ok=True)
        import re
        text = open(demo).read()
        # demos written by sub-agents may assert the path of the worktree they were written in
        text2 = re.sub(r'/tmp/mut\d*-C\d\d', scratch, text)
        if text2 != text:
            meta['demo_note'] = ('demo.py hard-codes its original worktree path (/tmp/mut-Cxx) in an import-location '
                                 'assertion; seed_eval substitutes the scratch worktree path before running it')
        with open(os.path.join(scratch, '_mut', 'S', 'demo.py'), 'w') as f:
            f.write(text2)
        env = 'PYTHONDONTWRITEBYTECODE=1 PYTHONPATH=%s timeout 600 /venv/bin/python _mut/S/demo.py' % scratch
        rc, out = sh(env, cwd=scratch)
        meta['demo_clean_exit'] = rc
        meta['ran'].append('demo on clean tree: exit %d' % rc)
        if rc != 0:
            ok = False
            print('demo fails on the clean tree:\n', out[-800:])
        rc, out = sh('git apply %s' % patch, cwd=scratch)
        if rc:
            print('patch does not apply:', out)
            ok = False
        else:
            rc, out = sh('%s/tools/baseline.sh %s' % (ROOT, scratch))
            meta['baseline_with_patch'] = out.strip().splitlines()[0] if out.strip() else ''
            meta['ran'].append('tools/baseline.sh on patched scratch worktree: exit %d (%s)' % (rc, meta['baseline_with_patch']))
            if rc != 0:
                ok = False
                print('pinned tests do not pass with the patch:\n', out[-800:])
            rc, out = sh(env, cwd=scratch)
            meta['demo_patched_exit'] = rc
            meta['ran'].append('demo on patched tree: exit %d' % rc)
            if rc == 0:
                ok = False
                print('demo does not fail with the patch applied')
    except Exception:
        sh('git -C /repo worktree remove --force %s' % scratch)
        shutil.rmtree(scratch, ignore_errors=True)
        raise
    meta['confirmed'] = ok
    if not ok and not a.keep_anyway:
        sh('git -C /repo worktree remove --force %s' % scratch)
        shutil.rmtree(scratch, ignore_errors=True)
        print(json.dumps(meta, indent=1))
        print('NOT CONFIRMED - nothing kept')
        return 1
    # run the checks against the patched scratch worktree (EMD_REPO points the checks at it; /repo is never touched,
    # which is equivalent to `git -C /repo apply` + `git -C /repo checkout -- .` but safe next to background runs)
    shutil.rmtree(os.path.join(scratch, '_mut'), ignore_errors=True)
    detected = {}
    try:
        for c in checks:
            t0 = time.time()
            rc, out = sh('EMD_REPO=%s %s/bin/check %s --tier %s' % (scratch, ROOT, c, a.tier), cwd=ROOT, timeout=7200)
            lines = [l for l in out.splitlines() if l.startswith(('VIOLATION', 'HARNESS-ERROR', 'OK', '  %s:' % c))]
            detected[c] = {'exit': rc, 'wall_s': round(time.time() - t0, 1), 'summary': [l[:300] for l in lines[:6]]}
            meta['ran'].append('EMD_REPO=<patched scratch worktree> bin/check %s --tier %s: exit %d' % (c, a.tier, rc))
    finally:
        sh('git -C /repo worktree remove --force %s' % scratch)
        shutil.rmtree(scratch, ignore_errors=True)
    meta['checks'] = detected
    meta['caught_by'] = [c for c, d in detected.items() if d['exit'] == 1]
    dst = os.path.join(ROOT, 'seeded', a.seed_id)
    os.makedirs(dst, exist_ok=True)
    same = os.path.abspath(a.src) == os.path.abspath(dst)        # re-evaluation of a seed already filed
    if not same:
        shutil.copy(patch, os.path.join(dst, 'patch.diff'))
        shutil.copy(demo, os.path.join(dst, 'demo.py'))
    if not same and os.path.exists(os.path.join(a.src, 'notes.md')):
        shutil.copy(os.path.join(a.src, 'notes.md'), os.path.join(dst, 'notes.md'))
    with open(os.path.join(dst, 'meta.json'), 'w') as f:
        json.dump(meta, f, indent=1)
    print(json.dumps({k: meta[k] for k in ('seed_id', 'property', 'confirmed', 'caught_by')}, indent=None))
    for c, d in detected.items():
        print(' ', c, 'exit', d['exit'], d['wall_s'], 's', (d['summary'][:2]))
    # restore evidence files produced by the patched run
    sh('git -C %s checkout -- evidence' % ROOT)
    return 0


if __name__ == '__main__':
    sys.exit(main())
