#!/bin/bash
# usage: tools/seed_recheck_all.sh [ids...]  - re-run, for every filed seed, the check of its own property against the patched tree
cd "$(dirname "$0")/.."
ids="$@"; [ -z "$ids" ] && ids=$(ls seeded | grep -E '^C[0-9]+-[A-Z]$')
for id in $ids; do
  prop=${id%%-*}
  python3 tools/seed_eval.py seeded/$id $id $prop --checks $prop --recheck 2>&1 | grep -E "^RECHECK|Traceback|Error" | cut -c1-400
done
