#!/bin/bash
# usage: tools/seed_recheck_all.sh [ids...]  - re-run, for every filed seed, the checks recorded as catching it (meta.json
# caught_by; the check of its own property if that list is empty) against a scratch worktree with the patch applied
cd "$(dirname "$0")/.."
ids="$@"; [ -z "$ids" ] && ids=$(ls seeded | grep -E '^C[0-9]+-[A-Z]$')
for id in $ids; do
  prop=${id%%-*}
  checks=$(python3 -c "import json; m=json.load(open('seeded/$id/meta.json')); c=m.get('caught_by') or ['$prop']; print(','.join(c if '$prop' not in c else ['$prop']))")
  python3 tools/seed_eval.py seeded/$id $id $prop --checks $checks --recheck 2>&1 | grep -E "^RECHECK|Traceback|Error" | cut -c1-400
done
