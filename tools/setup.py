#!/usr/bin/env python3
"""setup_cmd: nothing to build (pure Python); verify the environment and the manifest, offline."""
import json
import os
import subprocess
import sys

ROOT = os.path.dirname(os.path.dirname(os.path.abspath(__file__)))


def main():
    ok = True
    for d in ('evidence', 'out', 'out/replays', 'out/tmp'):
        os.makedirs(os.path.join(ROOT, d), exist_ok=True)
    r = subprocess.run(['/venv/bin/python', '-c',
                        'import sys; sys.path.insert(0, "/repo"); import numpy, scipy, yaml, pandas, emd; '
                        'print(numpy.__version__, scipy.__version__, emd.__file__)'],
                       capture_output=True, text=True)
    print('interpreter:', r.stdout.strip() or r.stderr.strip()[-300:])
    ok = ok and r.returncode == 0
    try:
        import jsonschema
        man = json.load(open(os.path.join(ROOT, 'MANIFEST.json')))
        jsonschema.validate(man, json.load(open('/root/.vp/MANIFEST.schema.json')))
        print('MANIFEST.json valid (%d checks)' % len(man['checks']))
        schema = json.load(open('/root/.vp/EVIDENCE.schema.json'))
        for c in man['checks']:
            p = os.path.join(ROOT, c['evidence_file'])
            if os.path.exists(p):
                jsonschema.validate(json.load(open(p)), schema)
    except ImportError:
        print('jsonschema not importable here; skipping schema validation')
    except Exception as e:  # noqa
        print('schema problem:', e)
        ok = False
    os.chmod(os.path.join(ROOT, 'bin', 'check'), 0o755)
    return 0 if ok else 1


if __name__ == '__main__':
    sys.exit(main())
