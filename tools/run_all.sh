#!/bin/bash
# usage: tools/run_all.sh [quick|thorough] [ids...]   - run every registered check once, print one line each
tier="${1:-quick}"; shift
cd "$(dirname "$0")/.."
ids="$@"
[ -z "$ids" ] && ids=$(python3-vt -c "import json; print(' '.join(c['property_id'] for c in json.load(open('MANIFEST.json'))['checks']))")
rc=0
for id in $ids; do
  s=$(date +%s)
  out=$(bin/check $id --tier $tier 2>&1); code=$?
  e=$(( $(date +%s) - s ))
  echo "$id exit=$code ${e}s $(echo "$out" | grep -E '^(OK|VIOLATION|HARNESS-ERROR|KNOWN-FINDING)' | head -3 | cut -c1-160 | tr '\n' ' ')"
  [ $code -ne 0 ] && rc=1
done
exit $rc
