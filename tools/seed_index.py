#!/usr/bin/env python3
"""Regenerate seeded/INDEX.md from the meta.json files."""
import glob, json, os
ROOT = os.path.dirname(os.path.dirname(os.path.abspath(__file__)))
rows = []
for f in sorted(glob.glob(os.path.join(ROOT, 'seeded', '*', 'meta.json'))):
    m = json.load(open(f))
    kinds = []
    for c, d in m.get('checks', {}).items():
        for l in d.get('summary', []):
            if 'kind=' in l:
                kinds.append('%s: %s' % (c, l.split('kind=')[1].split(' ')[0]))
                break
    rows.append((m['seed_id'], m['property'], m.get('needs_to_manifest', ''), ', '.join(m.get('caught_by', [])) or 'NOT CAUGHT',
                 '; '.join(kinds), 'yes' if m.get('confirmed') else 'no'))
with open(os.path.join(ROOT, 'seeded', 'INDEX.md'), 'w') as f:
    f.write('# Seeded property-breaking changes\n\nEach directory holds patch.diff (git apply on /repo), demo.py (exit 0 on the clean tree, non-zero with the patch),\n'
            'notes.md (from the sub-agent that wrote the change, independently of /verif) and meta.json (what was run: demo clean / patched,\n'
            'the 33 pinned tests with the patch, the checks with the patch). Regenerate with tools/seed_index.py.\n\n')
    f.write('| seed | targets | needs, in order to manifest | caught by (quick tier) | violation kind reported | confirmed |\n|---|---|---|---|---|---|\n')
    for r in rows:
        f.write('| %s | %s | %s | %s | %s | %s |\n' % r)
print(len(rows), 'seeds;', sum(1 for r in rows if r[3] == 'NOT CAUGHT'), 'not caught')
