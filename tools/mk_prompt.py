#!/usr/bin/env python3
"""Write the instruction file handed to a sub-agent that seeds a property-breaking change.

usage: tools/mk_prompt.py <property> <worktree> <out.txt> [--directions seq|sched]

The instruction file holds ONLY the text of the property (from properties.jsonl), one-line descriptions of the triggers
of the changes already filed under seeded/ for it (so that new ones differ), and the delivery rules.  Nothing about how
the checks work goes in, apart from the blunt statement that they enumerate small cases.
"""
import glob
import json
import os
import sys

ROOT = os.path.dirname(os.path.dirname(os.path.abspath(__file__)))

DIRECTIONS = {
    'surface': '''     Directions worth exploring (each of your mutations should follow a different one of these):
       * ALTERNATIVE ENTRY POINT: the property is broken only through a secondary route - an alias, a method of a container class instead of the module-level function (or the reverse), positional instead of keyword passing, a wrapper / decorator, `**config` versus `config.get_func()`, a documented convenience function that shares a helper with the main one, a rarely used keyword (`ret_*`, `out=`, `mode=`, `ii=`, `weights=`, `return_sparse=` ...) - while the primary, most commonly called form stays correct;
       * DEFAULT DRIFT: a default value changed at one site but not at another (function signature vs. configuration template vs. the value a wrapper passes on), so that "omit the option" and "pass the documented default explicitly" no longer behave alike;
       * SHAPE / AXIS / ORDER: outputs transposed, columns or rows in another order, or an axis reduced along the wrong dimension, visible only when the dimensions differ (non-square shapes, more than one column, more IMFs than samples in a block, a single row);
       * VALIDATION: a validation step that now rejects or silently coerces (rounds, clips, casts, squeezes, sorts) a legal class of inputs on which the statement of the property applies - the common inputs stay untouched.''',
    'sched': '''     Directions worth exploring (both of your mutations should follow one of these):
       * SCHEDULE / PLACEMENT DEPENDENCE: the result is wrong only for particular assignments of jobs to worker processes (e.g. only when some worker receives two specific jobs, only when a worker processes jobs out of index order, only when three or more workers are used, only when a worker is reused by a second map call on the same pool, only when a chunk holds several jobs) - think of per-process caches, module-level state set inside a worker, state inherited at fork time, in-place operations on arguments that are shared inside one pickled chunk;
       * HISTORY DEPENDENCE: the result is wrong only after a particular sequence of at least four or five operations on the same object or in the same process (a cache that is invalidated by most operations but not by one of them, a counter that is reset in the wrong place, a flag that survives an exception, a default that is captured the first time and reused);
       * TWO COOPERATING SITES: each of two small edits is harmless alone, together they break the property (deliver them as ONE mutation).''',
    'seq': '''     Directions worth exploring (each of your mutations should follow a different one of these):
       * STATE ACROSS CALLS: the result is wrong only on a second or later call in the same process (a module-level cache or memo keyed too coarsely - by length, by id(), by shape, by first/last value; a lazily built table; a default argument that is a mutable object; a scratch buffer hoisted out of the function; a flag that survives an exception);
       * TWO COOPERATING SITES: each of two small edits is harmless alone, together they break the property (deliver them as ONE mutation);
       * RARE EXIT PATH / RARE BRANCH: a branch that only runs for unusual but legal inputs (exact ties, plateaus, repeated values, values that are exactly 0 or exactly on a boundary / bin edge / tolerance, a single element, an empty selection, the very first or very last item, alternating NaN-free extremes, signals whose extrema sit on the first or last two samples), where the common branch stays correct;
       * INTERACTION OF THREE SETTINGS: wrong only for one particular combination of three option values that are each fine alone and fine in pairs;
       * ARITHMETIC REWRITE: an algebraically "equivalent" reformulation (reordered sums, a mean computed incrementally, a division replaced by a reciprocal multiply, a comparison moved across a subtraction, integer vs. float division, rounding vs. truncation, an index computed in one pass instead of two) that differs only for particular magnitudes, lengths or index parities.''',
}

TEMPLATE = '''You are helping to evaluate a verification harness for the Python library in the git worktree {wt} (a checkout of the `emd` Empirical Mode Decomposition package; package directory `emd/`, tests in `emd/tests/`). Work ONLY inside {wt}. Do not read, list or touch /repo or /verif at all.

Here is a semantic property the library is supposed to satisfy:

  id: {id}
  title: {title}
  statement: {statement}
  quantified over: {quant}
  why ordinary tests cannot settle it: {why}
  code anchors: {anchors} (line numbers are approximate)

The harness under evaluation checks such properties by EXHAUSTIVELY enumerating SMALL cases (very short signals over a few amplitude levels, a few dozen structured signals of 32-200 samples plus a handful of larger fixed instances and typed copies, up to 8 workers / ensemble members, operation histories of depth 3-5, small option grids). Your job is to find its blind spots.

YOUR TASK: produce TWO independent, realistic source changes ("mutation A" and "mutation B") to the library code under {wt}/emd/ (not the tests) such that each one
  1. BREAKS the property above (for some inputs / configurations / schedules / histories),
  2. still imports fine and still passes the existing pinned test-suite: run `cd {wt} && /venv/bin/python -m pytest -q -p no:cacheprovider --timeout=900 --continue-on-collection-errors` ; every test named in the "stable_pass" list of /root/.vp/BASELINE.json must still pass (two `test_is_imf` tests fail already without any change - ignore those),
  3. is a plausible maintainer slip (an "optimisation", a "clean-up", a vectorisation, a guard added for robustness, a refactoring that merges two branches) and NOT something a small exhaustive check would obviously see. Earlier contributors already produced the following changes for this property - yours must be different in nature, place and trigger:
{earlier}
{directions}

For EACH mutation deliver, in the directory {wt}/_mut/A/ (resp. _mut/B/):
  - patch.diff : the output of `git diff` for that mutation alone, relative to the unmodified worktree. Work on one mutation at a time; to get back to the clean tree use `git checkout -- emd` (do NOT use `git stash`: the stash is shared with other worktrees of this repository). Make sure patch.diff applies with `git apply` on a clean tree and contains only your own hunks.
  - demo.py : a small stand-alone program (run as `cd {wt} && /venv/bin/python _mut/A/demo.py`) that exits with status 0 on the UNMODIFIED tree and with a non-zero status (assertion failure) when the mutation is applied. It must demonstrate the violation of the property itself, using only the public behaviour of the library (plus numpy/scipy), and must finish within 5 minutes. IMPORTANT: the demo must start with `import os, sys; sys.path.insert(0, os.path.abspath(os.path.join(os.path.dirname(__file__), '..', '..')))` and must NOT hard-code the path {wt} anywhere (it will be re-run from a copy of the tree at another location).
  - notes.md : 5-10 lines: what was changed, why it breaks the property, what exactly is needed for it to manifest (be precise about sizes / magnitudes), and the output of the test-suite run and of both demo runs (clean / mutated).
Verify all of this yourself before finishing (tests with the mutation applied; demo on clean tree exits 0; demo on mutated tree exits non-zero). Leave the worktree's tracked files CLEAN (unmodified) at the end - only the untracked _mut/ directory should remain. Keep scratch files inside the worktree. Always wrap commands in `timeout 600`; some library calls can be slow or hang on unusual input.

Final answer: a short summary of the two mutations (files/lines, trigger, minimum size at which it shows) and confirmation of what you verified.
'''


def main():
    pid, wt, out = sys.argv[1:4]
    dirs = 'seq'
    if '--directions' in sys.argv:
        dirs = sys.argv[sys.argv.index('--directions') + 1]
    prop = None
    for line in open(os.path.join(ROOT, 'properties.jsonl')):
        p = json.loads(line)
        if p['id'] == pid:
            prop = p
    mech = '; '.join('%s (%s)' % (m['name'], m['where']) for m in prop['anchors'].get('mechanism', []))
    anchors = '%s; mechanisms: %s' % (', '.join(prop['anchors']['files']), mech)
    earlier = []
    for d in sorted(glob.glob(os.path.join(ROOT, 'seeded', pid + '-*'))):
        try:
            m = json.load(open(os.path.join(d, 'meta.json')))
        except Exception:
            continue
        if m.get('needs_to_manifest'):
            earlier.append('       - ' + m['needs_to_manifest'])
    text = TEMPLATE.format(wt=wt, id=pid, title=prop['title'], statement=prop['statement'], quant=prop['quantifier']['text'],
                           why=prop['why_tests_cant'], anchors=anchors, earlier='\n'.join(earlier), directions=DIRECTIONS[dirs])
    os.makedirs(os.path.dirname(out), exist_ok=True)
    with open(out, 'w') as f:
        f.write(text)
    print(out, len(text), 'bytes;', len(earlier), 'earlier changes listed')


if __name__ == '__main__':
    main()
