#!/usr/bin/env python3
"""usage: tools/kf_add.py <property> <status known|fixed> <commit|-> <signature> <what...>  (developer tool; never run by checks)"""
import json, sys, os
p = os.path.join(os.path.dirname(os.path.dirname(os.path.abspath(__file__))), 'known_findings.json')
d = json.load(open(p))
prop, status, commit, sig = sys.argv[1:5]
what = ' '.join(sys.argv[5:])
e = {'property': prop, 'status': status, 'signature': sig}
if commit != '-':
    e['commit'] = commit
    what = 'fixed: property=%s %s %s' % (prop, commit, what) if status == 'fixed' else what
e['what'] = what
d['findings'].append(e)
json.dump(d, open(p, 'w'), indent=1)
print('added', e)
